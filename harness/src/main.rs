fn main() {
    pmh_verif::cli_main()
}
