//! proptest strategies shared by several properties
use crate::pmh::*;
use crate::util::*;
use proptest::prelude::*;

/// signature length strategy: small values, powers of two, odd / prime sizes
pub fn m_strategy(min: usize, max: usize) -> impl Strategy<Value = usize> {
    let special: Vec<usize> = [1usize, 2, 3, 4, 5, 7, 8, 13, 16, 17, 31, 32, 33, 61, 64, 65, 97, 127, 128, 129, 255, 256, 257, 509, 512, 1021, 1024, 2048, 4093, 4096]
        .iter()
        .cloned()
        .filter(|x| *x >= min && *x <= max)
        .collect();
    let special = if special.is_empty() { vec![min, max] } else { special };
    prop_oneof![
        3 => prop::sample::select(special),
        2 => min..=max.min(min + 16),
        2 => min..=max,
    ]
}

pub fn variant_strategy() -> impl Strategy<Value = Variant> {
    prop::sample::select(VARIANTS.to_vec())
}
pub fn hasher_strategy() -> impl Strategy<Value = HasherKind> {
    prop_oneof![4 => Just(HasherKind::Fnv), 1 => Just(HasherKind::NoHash), 1 => Just(HasherKind::Wy), 1 => Just(HasherKind::Xx64)]
}

/// log-uniform double in [10^lo, 10^hi]
pub fn log_uniform(lo: f64, hi: f64) -> impl Strategy<Value = f64> {
    (lo..hi).prop_map(|e| 10f64.powf(e))
}

#[derive(Clone, Copy, Debug, PartialEq, Eq)]
pub enum WStratum {
    Equal,
    SmallInt,
    LogUniform,
    WildlyUnequal,
    Extreme,
}

/// weight vector of length n from one stratum
pub fn weights(n: usize, with_extreme: bool) -> impl Strategy<Value = Vec<f64>> {
    let equal = log_uniform(-3.0, 3.0).prop_map(move |w| vec![w; n]).boxed();
    let small_int = prop::collection::vec((1u32..=12).prop_map(|x| x as f64), n).boxed();
    let logu = prop::collection::vec(log_uniform(-6.0, 6.0), n).boxed();
    let wild = (prop::collection::vec(0.5f64..2.0, n), any::<u16>(), log_uniform(6.0, 12.0))
        .prop_map(move |(mut v, i, big)| {
            if n > 0 {
                let k = idx16(i, n);
                v[k] *= big;
            }
            v
        })
        .boxed();
    if with_extreme {
        let extreme = prop::collection::vec(log_uniform(-300.0, 300.0), n).boxed();
        prop_oneof![2 => equal, 2 => small_int, 3 => logu, 2 => wild, 3 => extreme].boxed()
    } else {
        prop_oneof![2 => equal, 2 => small_int, 3 => logu, 2 => wild].boxed()
    }
}

/// n distinct labels (never the placeholder u64::MAX)
pub fn labels(n: usize) -> impl Strategy<Value = Vec<u64>> {
    prop_oneof![
        // small consecutive-ish labels (like the repository's tests)
        1 => (0u64..1000).prop_map(move |b| (0..n as u64).map(|i| b + i).collect::<Vec<u64>>()),
        3 => prop::collection::btree_set(0u64..u64::MAX - 1, n).prop_map(|s| s.into_iter().collect::<Vec<u64>>()),
    ]
}

/// a weighted set: distinct labels with positive finite weights
pub fn weighted_set(nmin: usize, nmax: usize, with_extreme: bool) -> impl Strategy<Value = Vec<(u64, F)>> {
    (nmin..=nmax).prop_flat_map(move |n| (labels(n), weights(n, with_extreme)).prop_map(|(l, w)| l.into_iter().zip(w.into_iter().map(F)).collect::<Vec<_>>()))
}

// ---------------------------------------------------------------------------------------------
// unweighted streams

use crate::sk::{Kind, SsParams, KINDS};

pub fn kind_strategy() -> impl Strategy<Value = Kind> {
    prop::sample::select(KINDS.to_vec())
}

/// valid SetSketch parameters: b in (1,2], a > 0, q from tiny (forces clipping at q+1) to 2^20
pub fn ss_params(m_hint: usize) -> impl Strategy<Value = SsParams> {
    let b = prop_oneof![
        3 => prop::sample::select(vec![1.001f64, 1.01, 1.1, 1.2, 1.5, 2.0]),
        1 => prop::sample::select(vec![1.0001f64, 1.0000001]),
        2 => log_uniform(-4.0, 0.0).prop_map(|d| 1.0 + d),
    ];
    (b, prop_oneof![3 => Just(0u8), 1 => Just(1u8), 1 => Just(2u8)], 0.05f64..50.0, 2u64..60, any::<bool>()).prop_map(move |(b, mode, a_free, q_small, big_q)| {
        let doc = SsParams::documented(b, m_hint.max(1), 1.0e6, 1.0e-6);
        match mode {
            0 => doc,
            1 => SsParams { b: F(b), a: F(a_free), q: if big_q { 65534 } else { doc.q } },
            _ => SsParams { b: F(b), a: F(a_free), q: q_small },
        }
    })
}

/// one way of presenting a set of distinct items to a sketcher
#[derive(Clone, Debug, serde::Serialize, serde::Deserialize)]
pub struct Presentation {
    /// copies of each item (>= 1), cycled over the items
    pub dup: Vec<u8>,
    /// sort keys over the resulting multiset stream (stable; cycled)
    pub order: Vec<u16>,
    /// chunk boundaries
    pub cuts: Vec<u16>,
    /// per chunk: true = one sketch_slice call, false = item-wise sketch calls
    pub slice: Vec<bool>,
}

pub fn presentation(n_hint: usize) -> impl Strategy<Value = Presentation> {
    (
        prop::collection::vec(prop_oneof![3 => Just(1u8), 1 => 1u8..4], 1..=n_hint.clamp(1, 16)),
        prop_oneof![1 => Just(vec![0u16]), 4 => prop::collection::vec(any::<u16>(), 1..=n_hint.clamp(1, 64))],
        prop::collection::vec(any::<u16>(), 0..4),
        prop::collection::vec(any::<bool>(), 1..5),
    )
        .prop_map(|(dup, order, cuts, slice)| Presentation { dup, order, cuts, slice })
}

impl Presentation {
    pub fn identity() -> Presentation {
        Presentation { dup: vec![1], order: vec![0], cuts: vec![], slice: vec![true] }
    }
    /// the stream (with repetitions, reordered) and its chunks
    pub fn chunks(&self, items: &[u64]) -> Vec<(bool, Vec<u64>)> {
        let mut stream: Vec<u64> = vec![];
        for (i, x) in items.iter().enumerate() {
            for _ in 0..self.dup[i % self.dup.len()].max(1) {
                stream.push(*x);
            }
        }
        let mut keyed: Vec<(u16, u64)> = stream.iter().enumerate().map(|(i, x)| (self.order[i % self.order.len()], *x)).collect();
        keyed.sort_by_key(|k| k.0);
        let stream: Vec<u64> = keyed.into_iter().map(|k| k.1).collect();
        let mut cuts: Vec<usize> = self.cuts.iter().map(|x| idx16(*x, stream.len() + 1)).collect();
        cuts.push(0);
        cuts.push(stream.len());
        cuts.sort_unstable();
        cuts.dedup();
        let mut out = vec![];
        for (ci, w) in cuts.windows(2).enumerate() {
            out.push((self.slice[ci % self.slice.len()], stream[w[0]..w[1]].to_vec()));
        }
        if out.is_empty() {
            out.push((true, vec![]));
        }
        out
    }
    pub fn stream(&self, items: &[u64]) -> Vec<u64> {
        self.chunks(items).into_iter().flat_map(|c| c.1).collect()
    }
}

/// a set of n distinct u64 items; n drawn log-uniformly so that both tiny and large sets occur
pub fn item_set(nmin: usize, nmax: usize) -> impl Strategy<Value = Vec<u64>> {
    let lo = (nmin.max(1) as f64).ln();
    let hi = (nmax as f64).ln();
    (lo..=hi, any::<u64>(), any::<bool>()).prop_map(move |(l, seed, consecutive)| {
        let n = (l.exp().round() as usize).clamp(nmin, nmax);
        if consecutive {
            let base = seed % 1_000_000;
            (0..n as u64).map(|i| base + i).collect()
        } else {
            // distinct by construction: an odd-multiplier bijection of consecutive integers
            let mut set: std::collections::BTreeSet<u64> = (0..n as u64).map(|i| splitmix64(seed.wrapping_add(i))).collect();
            // one set in four also holds edge labels: with the crate's no-op hasher the hash value of a u64 item is the item with its
            // bytes swapped (little endian), so both the raw edge values and their byte-swapped forms are included (hash values 0, 1, 2,
            // all-ones, all-ones - 1, ... are reached exactly)
            if seed % 4 == 0 && n >= 2 {
                const EDGES: [u64; 8] = [0, 1, 2, u64::MAX, u64::MAX - 1, u32::MAX as u64, 1u64 << 63, 3];
                let pick = (seed >> 8) % 4;
                for (i, e) in EDGES.iter().enumerate() {
                    if pick == 0 || i < 2 + pick as usize * 2 {
                        set.insert(*e);
                        set.insert(e.swap_bytes());
                    }
                }
                while set.len() > n.max(4) {
                    // keep the size: drop a middle element, never an edge label
                    let victim = *set.iter().nth(set.len() / 2).unwrap();
                    if EDGES.contains(&victim) || EDGES.contains(&victim.swap_bytes()) {
                        break;
                    }
                    set.remove(&victim);
                }
            }
            set.into_iter().collect()
        }
    })
}
