//! helpers for distributional checks: global confidence level, confirm-before-report
use crate::fw::Fail;
use crate::stat::*;

/// L = ln(2/delta) with delta = 1e-14 per comparison: up to 1e5 comparisons per run stay within the run budget 1e-9
pub const L: f64 = 32.93;

/// Decide E X = mu for a [0,1] valued per-trial statistic. `sample(seed, trials)` must be a pure function.
/// A failure is confirmed on an independent seed with 4x the trials before it is reported.
pub fn decide_mean(what: &str, mu: f64, var_h: Option<f64>, trials: u64, seed: u64, sample: &dyn Fn(u64, u64) -> Acc) -> Result<MeanTest, Fail> {
    let a = sample(seed, trials);
    let t = mean_test(&a, mu, var_h, L);
    if t.ok {
        return Ok(t);
    }
    let a2 = sample(crate::util::splitmix64(seed ^ 0xC0FFEE), trials * 4);
    let t2 = mean_test(&a2, mu, var_h, L);
    if t2.ok {
        return Ok(t2);
    }
    Err(Fail::new(format!(
        "{}: empirical mean {:.6} (then {:.6} on an independent seed with 4x the trials) differs from the exact value {:.6} by more than the rigorous tolerance {:.6} / {:.6} (T = {} / {})",
        what, t.mean, t2.mean, mu, t.tol, t2.tol, trials, trials * 4
    )))
}

/// Decide E Y <= bound for Y in [0, range]
pub fn decide_upper(what: &str, bound: f64, range: f64, trials: u64, seed: u64, sample: &dyn Fn(u64, u64) -> Acc) -> Result<MeanTest, Fail> {
    let a = sample(seed, trials);
    let t = upper_test(&a, bound, range, L);
    if t.ok {
        return Ok(t);
    }
    let a2 = sample(crate::util::splitmix64(seed ^ 0xC0FFEE), trials * 4);
    let t2 = upper_test(&a2, bound, range, L);
    if t2.ok {
        return Ok(t2);
    }
    Err(Fail::new(format!(
        "{}: empirical mean {:.6e} (then {:.6e} on an independent seed with 4x the trials) exceeds the bound {:.6e} by more than the rigorous tolerance {:.3e} / {:.3e}",
        what, t.mean, t2.mean, bound, t.tol, t2.tol
    )))
}
