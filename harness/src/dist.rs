//! helpers for distributional checks: global confidence level, confirm-before-report
use crate::fw::Fail;
use crate::stat::*;

/// L = ln(2/delta) with delta = 1e-14 per comparison: up to 1e5 comparisons per run stay within the run budget 1e-9
pub const L: f64 = 32.93;

/// Decide E X = mu for a [0,1] valued per-trial statistic. `sample(seed, trials)` must be a pure function.
/// A failure is confirmed on an independent seed with 4x the trials before it is reported.
pub fn decide_mean(what: &str, mu: f64, var_h: Option<f64>, trials: u64, seed: u64, sample: &dyn Fn(u64, u64) -> Acc) -> Result<MeanTest, Fail> {
    let a = sample(seed, trials);
    let t = mean_test(&a, mu, var_h, L);
    if t.ok {
        return Ok(t);
    }
    let a2 = sample(crate::util::splitmix64(seed ^ 0xC0FFEE), trials * 4);
    let t2 = mean_test(&a2, mu, var_h, L);
    if t2.ok {
        return Ok(t2);
    }
    Err(Fail::new(format!(
        "{}: empirical mean {:.6} (then {:.6} on an independent seed with 4x the trials) differs from the exact value {:.6} by more than the rigorous tolerance {:.6} / {:.6} (T = {} / {})",
        what, t.mean, t2.mean, mu, t.tol, t2.tol, trials, trials * 4
    )))
}

/// Decide E Y <= bound for Y in [0, range]
pub fn decide_upper(what: &str, bound: f64, range: f64, trials: u64, seed: u64, sample: &dyn Fn(u64, u64) -> Acc) -> Result<MeanTest, Fail> {
    let a = sample(seed, trials);
    let t = upper_test(&a, bound, range, L);
    if t.ok {
        return Ok(t);
    }
    let a2 = sample(crate::util::splitmix64(seed ^ 0xC0FFEE), trials * 4);
    let t2 = upper_test(&a2, bound, range, L);
    if t2.ok {
        return Ok(t2);
    }
    Err(Fail::new(format!(
        "{}: empirical mean {:.6e} (then {:.6e} on an independent seed with 4x the trials) exceeds the bound {:.6e} by more than the rigorous tolerance {:.3e} / {:.3e}",
        what, t.mean, t2.mean, bound, t.tol, t2.tol
    )))
}

/// one statistical comparison of a multi-statistic experiment
#[derive(Clone, Debug)]
pub enum Want {
    /// E X = mu for X in [0,1]; optional variance bound valid under the hypothesis
    Mean { mu: f64, var_h: Option<f64> },
    /// E Y <= bound for Y in [0, range]
    Upper { bound: f64, range: f64 },
}
#[derive(Clone, Debug)]
pub struct Check {
    pub name: String,
    pub want: Want,
}

fn run_check(c: &Check, a: &Acc) -> MeanTest {
    match &c.want {
        Want::Mean { mu, var_h } => mean_test(a, *mu, *var_h, L),
        Want::Upper { bound, range } => upper_test(a, *bound, *range, L),
    }
}

/// `sample(seed, trials)` returns one accumulator per check. A check must fail on the first run AND on an independent
/// run with 4x the trials to be reported.
pub fn decide_multi(what: &str, checks: &[Check], trials: u64, seed: u64, sample: &dyn Fn(u64, u64) -> Vec<Acc>) -> Result<Vec<MeanTest>, Fail> {
    let accs = sample(seed, trials);
    assert_eq!(accs.len(), checks.len());
    let first: Vec<MeanTest> = checks.iter().zip(accs.iter()).map(|(c, a)| run_check(c, a)).collect();
    let failing: Vec<usize> = (0..checks.len()).filter(|i| !first[*i].ok).collect();
    if failing.is_empty() {
        return Ok(first);
    }
    let accs2 = sample(crate::util::splitmix64(seed ^ 0xC0FFEE), trials * 4);
    for i in failing {
        let t2 = run_check(&checks[i], &accs2[i]);
        if !t2.ok {
            let t1 = &first[i];
            let rel = match checks[i].want {
                Want::Mean { .. } => "differs from the exact value",
                Want::Upper { .. } => "exceeds the bound",
            };
            let mut f = Fail::new(format!(
                "{}: {}: empirical value {:.6e} (T = {}), then {:.6e} on an independent seed (T = {}), {} {:.6e} by more than the rigorous tolerances {:.3e} / {:.3e}",
                what, checks[i].name, t1.mean, trials, t2.mean, 4 * trials, rel, t1.target, t1.tol, t2.tol
            ));
            f.stat = Some((i, t1.mean, t2.mean, t1.target));
            return Err(f);
        }
    }
    Ok(first)
}
