//! libFuzzer entry points: the input bytes are decoded structurally (bytedec) into the case type of a property,
//! normalised into the property's input domain (the same domain the proptest strategies generate), and evaluated by the
//! property's oracle. A violation writes a replay file (same format as the proptest driver) and panics.
use crate::bytedec::from_bytes;
use crate::fw::*;
use crate::props::*;
use crate::sk::{Kind, SsParams, KINDS};
use crate::util::*;
use serde::de::DeserializeOwned;
use serde::Serialize;
use serde_json::json;

pub const FUZZ_TARGETS: [&str; 13] = ["C02", "C04", "C05", "C09", "C11", "C12", "C13", "C14", "C15", "C17", "C18", "C19", "C20"];

fn run_case<V: DeserializeOwned + Serialize>(id: &str, sub: &str, data: &[u8], max_seq: usize, normalize: impl Fn(&mut V) -> bool, eval: impl Fn(&V) -> Eval) -> Result<(), String> {
    let mut case: V = match from_bytes(data, max_seq) {
        Ok(c) => c,
        Err(_) => return Ok(()),
    };
    if !normalize(&mut case) {
        return Ok(());
    }
    let r = match catch(|| eval(&case)) {
        Ok(r) => r,
        Err(p) => Err(Fail::new(format!("panic: {}", p))),
    };
    match r {
        Ok(_) => Ok(()),
        Err(f) => {
            if let Some(sig) = &f.signature {
                let ctx = Ctx::new(id, Tier::Thorough, 0);
                if ctx.open_finding(sig).is_some() {
                    return Ok(());
                }
            }
            let payload = json!({"property": id, "sub": sub, "reason": f.reason, "case": case, "found_by": "libFuzzer"});
            let text = serde_json::to_string_pretty(&payload).unwrap();
            let dir = verif_root().join("replays");
            let _ = std::fs::create_dir_all(&dir);
            let path = dir.join(format!("{}-{}-fuzz-{:016x}.json", id, sub, hash_str(&text)));
            let _ = std::fs::write(&path, text);
            Err(format!("{} [{}] replay written to {}", f.reason, sub, path.display()))
        }
    }
}

// ------------------------------------------------------------------------------------------------ helpers

fn dedup_keep_order(v: &mut Vec<u64>) {
    let mut seen = std::collections::HashSet::new();
    v.retain(|x| seen.insert(*x));
}

/// map arbitrary bits to valid SetSketch parameters
fn norm_ss(ss: &mut SsParams, m: usize) {
    let bb = ss.b.0.to_bits();
    let b = match bb % 8 {
        0 => 1.001,
        1 => 1.01,
        2 => 1.2,
        3 => 2.0,
        4 => 1.0001,
        _ => 1.0 + ((bb >> 12) as f64 / (1u64 << 52) as f64).clamp(1e-4, 1.0),
    };
    let ab = ss.a.0.to_bits();
    match ab % 4 {
        0 | 1 => *ss = SsParams::documented(b, m.max(1), 1.0e6, 1.0e-6),
        2 => {
            let doc = SsParams::documented(b, m.max(1), 1.0e6, 1.0e-6);
            *ss = SsParams { b: F(b), a: F(0.05 + ((ab >> 8) % 50_000) as f64 / 1000.0), q: doc.q };
        }
        _ => *ss = SsParams { b: F(b), a: F(0.05 + ((ab >> 8) % 50_000) as f64 / 1000.0), q: 2 + ss.q % 60 },
    }
}

fn norm_kind(k: &mut Kind, only_dens: bool) {
    if only_dens && !k.is_dens() {
        let i = KINDS.iter().position(|x| x == k).unwrap_or(0);
        *k = [Kind::OptF64, Kind::OptF32, Kind::RevF64, Kind::RevF32, Kind::OptF64NoHash, Kind::RevF64NoHash][i % 6];
    }
}

fn norm_presentation(p: &mut crate::gen::Presentation) {
    if p.dup.is_empty() {
        p.dup.push(1);
    }
    for d in p.dup.iter_mut() {
        *d = 1 + *d % 3;
    }
    if p.order.is_empty() {
        p.order.push(0);
    }
    if p.slice.is_empty() {
        p.slice.push(true);
    }
    p.cuts.truncate(4);
}

fn norm_weight(w: &mut F) {
    // positive, finite, normal: the exponent range of the bit pattern is kept (covers 1e-308 .. 1e308)
    let x = f64::from_bits(w.0.to_bits() & 0x7FFF_FFFF_FFFF_FFFF);
    w.0 = if x.is_finite() && x >= f64::MIN_POSITIVE && x <= 1e300 { x } else { 1.0 + (w.0.to_bits() % 16) as f64 };
}

// ------------------------------------------------------------------------------------------------ dispatcher

/// one libFuzzer input for the fuzz target of property `id`. Panics on a violation.
pub fn fuzz(id: &str, data: &[u8]) {
    if data.len() < 4 {
        return;
    }
    let r = match id {
        "C02" => run_case(
            id,
            "plan",
            data,
            60,
            |c: &mut c02::Case| {
                c.m = crate::pmh::min_m(c.variant) + c.m % 64;
                let mut seen = std::collections::HashSet::new();
                c.items.retain(|p| p.0 != u64::MAX && seen.insert(p.0));
                if c.items.is_empty() {
                    return false;
                }
                c.items.iter_mut().for_each(|p| norm_weight(&mut p.1));
                if c.entries.is_empty() {
                    c.entries.push(0);
                }
                c.cuts.truncate(4);
                c.reinsert.truncate(4);
                c.scale = c.scale % 200;
                c.side.resize(c.items.len(), 2);
                c.side.iter_mut().for_each(|s| *s %= 3);
                true
            },
            c02::eval,
        ),
        "C04" => run_case(
            id,
            "presentations",
            data,
            300,
            |c: &mut c04::Case| {
                c.m = 1 + c.m % 64;
                norm_ss(&mut c.ss, c.m);
                dedup_keep_order(&mut c.items);
                if c.items.is_empty() {
                    return false;
                }
                norm_presentation(&mut c.pa);
                norm_presentation(&mut c.pb);
                if let Some(l) = c.lead {
                    if !c.items.contains(&l) {
                        c.items.push(l);
                    }
                }
                true
            },
            c04::eval,
        ),
        "C05" => run_case(
            id,
            "setsketch-history",
            data,
            200,
            |c: &mut c05::Case| {
                c.m = 1 + c.m % 32;
                norm_ss(&mut c.ss, c.m);
                c.nsk = 2 + c.nsk % 3;
                dedup_keep_order(&mut c.pool);
                if c.pool.is_empty() {
                    return false;
                }
                c.ops.truncate(14);
                for op in c.ops.iter_mut() {
                    if let c05::Op::Mismatch(_, which, shift) = op {
                        *which %= 7;
                        *shift = 1 + *shift % 39;
                    }
                }
                true
            },
            c05::eval,
        ),
        "C09" => run_case(
            id,
            "history",
            data,
            200,
            |c: &mut c09::Case| {
                norm_kind(&mut c.kind, true);
                c.m = 1 + c.m % 64;
                c.m2 = 1 + c.m2 % 64;
                dedup_keep_order(&mut c.pool);
                if c.pool.is_empty() {
                    return false;
                }
                c.ops.truncate(40);
                if c.ops.is_empty() {
                    return false;
                }
                c.in_b.resize(c.pool.len(), false);
                true
            },
            c09::eval,
        ),
        "C11" => run_case(
            id,
            "selection",
            data,
            16,
            |c: &mut c11::Case| {
                c.m = 1 + c.m % 64;
                c.l = 1 + c.l % 4;
                c.family %= 6;
                c.seq.iter_mut().for_each(|x| *x %= 9);
                while c.seq.len() < c.l {
                    c.seq.push(c.seq.len() as u8 % 3);
                }
                c.seq.truncate(14);
                if c.perm.is_empty() {
                    c.perm.push(0);
                }
                c.history.truncate(3);
                for h in c.history.iter_mut() {
                    h.iter_mut().for_each(|x| *x %= 9);
                    while h.len() < c.l {
                        h.push(1);
                    }
                }
                true
            },
            c11::eval,
        ),
        "C12" => run_case(
            id,
            "contexts",
            data,
            120,
            |c: &mut crate::spec::Spec| {
                use crate::spec::Spec;
                match c {
                    Spec::Pmh { variant, m, items, .. } => {
                        *m = crate::pmh::min_m(*variant) + *m % 64;
                        let mut seen = std::collections::HashSet::new();
                        items.retain(|p| p.0 != u64::MAX && seen.insert(p.0));
                        items.iter_mut().for_each(|p| {
                            norm_weight(&mut p.1);
                            p.1 .0 = p.1 .0.clamp(1e-300, 1e300);
                        });
                        !items.is_empty()
                    }
                    Spec::ShaStr { m, items } => {
                        *m = 2 + *m % 64;
                        let mut seen = std::collections::HashSet::new();
                        items.retain(|p| !p.0.starts_with('\u{0}') && seen.insert(p.0.clone()));
                        items.iter_mut().for_each(|p| {
                            norm_weight(&mut p.1);
                            p.1 .0 = p.1 .0.clamp(1e-300, 1e300);
                        });
                        !items.is_empty()
                    }
                    Spec::Unw { m, ss, items, pres, .. } => {
                        *m = 1 + *m % 64;
                        norm_ss(ss, *m);
                        dedup_keep_order(items);
                        norm_presentation(pres);
                        !items.is_empty()
                    }
                    Spec::Ord { m, l, seq, .. } => {
                        *m = 1 + *m % 64;
                        *l = 1 + *l % 5;
                        seq.iter_mut().for_each(|x| *x %= 12);
                        while seq.len() < *l {
                            seq.push(seq.len() as u16 % 3);
                        }
                        seq.truncate(40);
                        true
                    }
                }
            },
            c12::eval_fuzz,
        ),
        "C13" => run_case(
            id,
            "unweighted",
            data,
            200,
            |c: &mut c13::Case| {
                c.m = 1 + c.m % 64;
                norm_ss(&mut c.ss, c.m);
                dedup_keep_order(&mut c.pool);
                if c.pool.is_empty() {
                    return false;
                }
                let fix = |ops: &mut Vec<c13::Op>| {
                    ops.truncate(12);
                    ops.retain(|o| !matches!(o, c13::Op::Slice(v) if v.is_empty()) && !matches!(o, c13::Op::Bulk(..)));
                };
                fix(&mut c.prefix);
                fix(&mut c.suffix);
                !c.suffix.is_empty()
            },
            c13::eval,
        ),
        "C14" => run_case(
            id,
            "counting",
            data,
            100,
            |c: &mut c14::Case| {
                if c.base.is_empty() {
                    c.base.push(0);
                }
                let n = c.base.len();
                c.other_len = c.other_len.map(|l| l % (n + 4)).filter(|l| *l != n);
                true
            },
            c14::eval,
        ),
        "C15" => run_case(
            id,
            "history",
            data,
            400,
            |c: &mut c15::Case| {
                c.m = 1 + c.m % 70;
                for op in c.ops.iter_mut() {
                    match op {
                        c15::Op::Update(_, v) | c15::Op::Fill(v, _) | c15::Op::Stride(_, v) => {
                            if !v.0.is_finite() {
                                v.0 = 1.0;
                            }
                        }
                        _ => {}
                    }
                }
                true
            },
            c15::eval,
        ),
        "C17" => run_case(
            id,
            "exact",
            data,
            400,
            |c: &mut c17::Case| {
                c.m = 1 + c.m % 100;
                c.pre_draws %= 3 * c.m + 3;
                c.blocks = 1 + c.blocks % 3;
                true
            },
            c17::eval,
        ),
        "C18" => run_case(
            id,
            "values",
            data,
            4096,
            |c: &mut crate::sigprobe::SigVal| {
                use crate::sigprobe::SigVal;
                if let SigVal::BigU16(n, _) | SigVal::BigU32(n, _) = c {
                    *n %= 70_000;
                }
                true
            },
            c18::eval_inprocess,
        ),
        "C19" => run_case(
            id,
            "h64",
            data,
            8,
            |c: &mut c19::Case| {
                c.width = if c.width & 1 == 1 { 32 } else { 64 };
                true
            },
            c19::eval,
        ),
        "C20" => run_case(
            id,
            "roundtrip-and-prefixes",
            data,
            8,
            |c: &mut c20::Case| {
                // b into (1,2], a into [2^-20, 2^30): the documented parameter ranges
                let mant = c.b.0.to_bits() & ((1u64 << 52) - 1);
                c.b.0 = if mant == 0 { 2.0 } else { f64::from_bits(0x3FF0_0000_0000_0000 | mant) };
                let (lo, hi) = (0x3EB0_0000_0000_0000u64, 0x41D0_0000_0000_0000u64);
                c.a.0 = f64::from_bits(lo + c.a.0.to_bits() % (hi - lo));
                true
            },
            c20::eval,
        ),
        _ => Ok(()),
    };
    if let Err(msg) = r {
        panic!("VIOLATION-IN-FUZZ-TARGET property={} {}", id, msg);
    }
}
