//! uniform (object safe) view of the unweighted sketchers over u64 items
use fnv::FnvHasher;
use probminhash::densminhash::{OptDensMinHash, RevOptDensMinHash};
use probminhash::setsketcher::{SetSketchParams, SetSketcher};
use probminhash::superminhasher::SuperMinHash;
use probminhash::superminhasher2::SuperMinHash2;
use serde::{Deserialize, Serialize};
use std::hash::{BuildHasher, BuildHasherDefault, Hasher};
use twox_hash::XxHash32;

use crate::util::F;

#[derive(Clone, Copy, Debug, PartialEq, Eq, Serialize, Deserialize, Hash)]
pub enum Kind {
    SmhF64,
    SmhF32,
    SmhF64NoHash,
    Smh2U64,
    Smh2U64NoHash,
    Smh2U32,
    SetU16,
    SetU32,
    OptF64,
    OptF32,
    RevF64,
    RevF32,
    /// the same sketchers with the crate's no-op hasher (the u64 item IS the hash value, byte-swapped on little endian)
    SetU32NoHash,
    OptF64NoHash,
    RevF64NoHash,
    /// SetSketch over signed register types (the type bounds admit them; the documentation names u16 and u32)
    SetI16,
    SetI64,
}
pub const KINDS: [Kind; 17] = [
    Kind::SmhF64,
    Kind::SmhF32,
    Kind::SmhF64NoHash,
    Kind::Smh2U64,
    Kind::Smh2U64NoHash,
    Kind::Smh2U32,
    Kind::SetU16,
    Kind::SetU32,
    Kind::OptF64,
    Kind::OptF32,
    Kind::RevF64,
    Kind::RevF32,
    Kind::SetU32NoHash,
    Kind::OptF64NoHash,
    Kind::RevF64NoHash,
    Kind::SetI16,
    Kind::SetI64,
];
impl Kind {
    pub fn is_dens(&self) -> bool {
        matches!(self, Kind::OptF64 | Kind::OptF32 | Kind::RevF64 | Kind::RevF32 | Kind::OptF64NoHash | Kind::RevF64NoHash)
    }
    pub fn is_set(&self) -> bool {
        matches!(self, Kind::SetU16 | Kind::SetU32 | Kind::SetU32NoHash | Kind::SetI16 | Kind::SetI64)
    }
    pub fn is_smh(&self) -> bool {
        matches!(self, Kind::SmhF64 | Kind::SmhF32 | Kind::SmhF64NoHash)
    }
    pub fn is_smh2(&self) -> bool {
        matches!(self, Kind::Smh2U64 | Kind::Smh2U64NoHash | Kind::Smh2U32)
    }
    pub fn is_nohash(&self) -> bool {
        matches!(self, Kind::SmhF64NoHash | Kind::Smh2U64NoHash | Kind::SetU32NoHash | Kind::OptF64NoHash | Kind::RevF64NoHash)
    }
    pub fn is_f32(&self) -> bool {
        matches!(self, Kind::SmhF32 | Kind::OptF32 | Kind::RevF32)
    }
}

/// SetSketch parameters carried by generated cases (bit exact)
#[derive(Clone, Copy, Debug, Serialize, Deserialize, PartialEq)]
pub struct SsParams {
    pub b: F,
    pub a: F,
    pub q: u64,
}
impl SsParams {
    pub fn to_params(&self, m: usize) -> SetSketchParams {
        // for odd m the parameters are built with another size and adjusted through the public setter (both ways must be the same parameters)
        if m % 2 == 1 {
            let mut p = SetSketchParams::new(self.b.0, 4096, self.a.0, self.q);
            p.set_m(m);
            p
        } else {
            SetSketchParams::new(self.b.0, m as u64, self.a.0, self.q)
        }
    }
    /// parameters chosen as the documentation prescribes for up to n items with clipping probability eps
    pub fn documented(b: f64, m: usize, n: f64, eps: f64) -> SsParams {
        let a = ((m as f64) / eps).ln() / b;
        let a = a.max(1e-3);
        let q = (((m as f64) * n.max(1.0) * a / eps).ln() / b.ln()).ceil().max(1.0) as u64;
        SsParams { b: F(b), a: F(a), q }
    }
}

/// everything observable on a sketcher, as bit patterns (so that comparison is bit exact and type independent)
#[derive(Clone, Debug, PartialEq, Eq)]
pub struct Views {
    /// named views: ("float", bits) / ("u64", values) / ("u32", values) / ("sig", registers) ...
    pub v: Vec<(&'static str, Vec<u64>)>,
}
impl Views {
    pub fn get(&self, name: &str) -> Option<&Vec<u64>> {
        self.v.iter().find(|x| x.0 == name).map(|x| &x.1)
    }
    pub fn first_diff(&self, o: &Views) -> Option<String> {
        if self.v.len() != o.v.len() {
            return Some("different set of views".into());
        }
        for (a, b) in self.v.iter().zip(o.v.iter()) {
            if a.0 != b.0 || a.1.len() != b.1.len() {
                return Some(format!("view {} / {} differ in shape", a.0, b.0));
            }
            for k in 0..a.1.len() {
                if a.1[k] != b.1[k] {
                    return Some(format!("view '{}' position {}: {:#x} vs {:#x}", a.0, k, a.1[k], b.1[k]));
                }
            }
        }
        None
    }
}

pub trait Sk {
    fn sketch(&mut self, x: u64);
    /// returns false when the sketcher refused the slice (e.g. empty slice)
    fn slice(&mut self, xs: &[u64]) -> bool;
    fn reinit(&mut self);
    /// finishing step (densified sketchers); no-op elsewhere
    fn finish(&mut self);
    /// all views; panics of the getters propagate (callers use util::catch where that matters)
    fn views(&self) -> Views;
    /// the hasher's value of an item (computed independently with the same BuildHasherDefault)
    fn hash_of(&self, x: u64) -> u64;
    /// densified sketchers only (guarded hook): (float bits, hashes, populated flags, number of empty bins)
    fn raw(&self) -> Option<Raw> {
        None
    }
    /// SetSketch only: merge a fresh same-parameter sketcher holding `items` into self; None when not supported
    fn merge_items(&mut self, _items: &[u64]) -> Option<bool> {
        None
    }
}

#[derive(Clone, Debug, PartialEq, Eq)]
pub struct Raw {
    pub fl: Vec<u64>,
    pub hashes: Vec<u64>,
    pub init: Vec<bool>,
    pub nb_empty: i64,
}

fn fbits64(v: &[f64]) -> Vec<u64> {
    v.iter().map(|x| x.to_bits()).collect()
}
fn fbits32(v: &[f32]) -> Vec<u64> {
    v.iter().map(|x| x.to_bits() as u64).collect()
}

struct Smh<Fl: num::Float, H: Hasher + Default>(SuperMinHash<Fl, u64, H>);
macro_rules! impl_smh {
    ($fl:ty, $bits:ident) => {
        impl<H: Hasher + Default> Sk for Smh<$fl, H> {
            fn sketch(&mut self, x: u64) {
                self.0.sketch(&x).unwrap();
            }
            fn slice(&mut self, xs: &[u64]) -> bool {
                self.0.sketch_slice(xs).is_ok()
            }
            fn reinit(&mut self) {
                self.0.reinit()
            }
            fn finish(&mut self) {}
            fn views(&self) -> Views {
                Views { v: vec![("float", $bits(self.0.get_hsketch()))] }
            }
            fn hash_of(&self, x: u64) -> u64 {
                BuildHasherDefault::<H>::default().hash_one(&x)
            }
        }
    };
}
impl_smh!(f64, fbits64);
impl_smh!(f32, fbits32);

struct Smh2<I: num::Integer, H: Hasher + Default>(SuperMinHash2<I, u64, H>);
impl<H: Hasher + Default> Sk for Smh2<u64, H> {
    fn sketch(&mut self, x: u64) {
        self.0.sketch(&x).unwrap();
    }
    fn slice(&mut self, xs: &[u64]) -> bool {
        self.0.sketch_slice(xs).is_ok()
    }
    fn reinit(&mut self) {
        self.0.reinit()
    }
    fn finish(&mut self) {}
    fn views(&self) -> Views {
        Views { v: vec![("u64", self.0.get_hsketch().clone())] }
    }
    fn hash_of(&self, x: u64) -> u64 {
        BuildHasherDefault::<H>::default().hash_one(&x)
    }
}
impl<H: Hasher + Default> Sk for Smh2<u32, H> {
    fn sketch(&mut self, x: u64) {
        self.0.sketch(&x).unwrap();
    }
    fn slice(&mut self, xs: &[u64]) -> bool {
        self.0.sketch_slice(xs).is_ok()
    }
    fn reinit(&mut self) {
        self.0.reinit()
    }
    fn finish(&mut self) {}
    fn views(&self) -> Views {
        Views { v: vec![("u64", self.0.get_hsketch().iter().map(|x| *x as u64).collect())] }
    }
    fn hash_of(&self, x: u64) -> u64 {
        BuildHasherDefault::<H>::default().hash_one(&x)
    }
}

pub struct SetSk<I: num::Integer, H: Hasher + Default = FnvHasher>(pub SetSketcher<I, u64, H>, pub SsParams);
macro_rules! impl_set {
    ($i:ty) => {
        impl<H: Hasher + Default> Sk for SetSk<$i, H> {
            fn sketch(&mut self, x: u64) {
                self.0.sketch(&x).unwrap();
            }
            fn slice(&mut self, xs: &[u64]) -> bool {
                self.0.sketch_slice(xs).is_ok()
            }
            fn reinit(&mut self) {
                self.0.reinit()
            }
            fn finish(&mut self) {}
            fn views(&self) -> Views {
                let (card, rsd) = self.0.get_cardinal_stats();
                Views {
                    v: vec![
                        ("sig", self.0.get_signature().iter().map(|x| *x as u64).collect()),
                        ("hsketch", self.0.get_hsketch().iter().map(|x| *x as u64).collect()),
                        ("low", vec![self.0.get_low_sketch() as u64]),
                        ("overflow", vec![self.0.get_nb_overflow()]),
                        ("cardinal", vec![card.to_bits(), rsd.to_bits()]),
                    ],
                }
            }
            fn hash_of(&self, x: u64) -> u64 {
                BuildHasherDefault::<H>::default().hash_one(&x)
            }
            fn merge_items(&mut self, items: &[u64]) -> Option<bool> {
                let p = SetSketchParams::new(self.1.b.0, self.0.get_signature().len() as u64, self.1.a.0, self.1.q);
                let mut o = SetSketcher::<$i, u64, H>::new(p, Default::default());
                for x in items {
                    o.sketch(x).unwrap();
                }
                Some(self.0.merge(&o).is_ok())
            }
        }
    };
}
impl_set!(u16);
impl_set!(u32);
impl_set!(i16);
impl_set!(i64);

struct Opt<Fl: num::Float, H: Hasher + Default = FnvHasher>(OptDensMinHash<Fl, u64, H>);
struct Rev<Fl: num::Float, H: Hasher + Default = FnvHasher>(RevOptDensMinHash<Fl, u64, H>);
macro_rules! impl_dens {
    ($t:ident, $fl:ty, $bits:ident) => {
        impl<H: Hasher + Default> Sk for $t<$fl, H> {
            fn sketch(&mut self, x: u64) {
                self.0.sketch(&x);
            }
            fn slice(&mut self, xs: &[u64]) -> bool {
                self.0.sketch_slice(xs).is_ok()
            }
            fn reinit(&mut self) {
                self.0.reinit()
            }
            fn finish(&mut self) {
                self.0.end_sketch()
            }
            fn views(&self) -> Views {
                Views {
                    v: vec![
                        ("float", $bits(self.0.get_hsketch())),
                        ("u64", self.0.get_hsketch_u64()),
                        ("u32", self.0.get_hsketch_u32().iter().map(|x| *x as u64).collect()),
                    ],
                }
            }
            fn hash_of(&self, x: u64) -> u64 {
                BuildHasherDefault::<H>::default().hash_one(&x)
            }
            #[cfg(feature = "hooks")]
            fn raw(&self) -> Option<Raw> {
                let (f, h, i, n) = self.0.verif_raw();
                Some(Raw { fl: $bits(&f), hashes: h, init: i, nb_empty: n })
            }
        }
    };
}
impl_dens!(Opt, f64, fbits64);
impl_dens!(Opt, f32, fbits32);
impl_dens!(Rev, f64, fbits64);
impl_dens!(Rev, f32, fbits32);

/// build a sketcher. `ss` is only used by the SetSketch kinds.
pub fn make(kind: Kind, m: usize, ss: &SsParams) -> Box<dyn Sk> {
    use probminhash::nohasher::NoHashHasher;
    match kind {
        Kind::SmhF64 => Box::new(Smh::<f64, FnvHasher>(SuperMinHash::new(m, Default::default()))),
        Kind::SmhF32 => Box::new(Smh::<f32, FnvHasher>(SuperMinHash::new(m, Default::default()))),
        Kind::SmhF64NoHash => Box::new(Smh::<f64, NoHashHasher>(SuperMinHash::new(m, Default::default()))),
        Kind::Smh2U64 => Box::new(Smh2::<u64, FnvHasher>(SuperMinHash2::new(m, Default::default()))),
        Kind::Smh2U64NoHash => Box::new(Smh2::<u64, NoHashHasher>(SuperMinHash2::new(m, Default::default()))),
        Kind::Smh2U32 => Box::new(Smh2::<u32, XxHash32>(SuperMinHash2::new(m, Default::default()))),
        Kind::SetU16 => Box::new(SetSk::<u16>(SetSketcher::new(ss.to_params(m), Default::default()), *ss)),
        Kind::SetU32 => Box::new(SetSk::<u32>(SetSketcher::new(ss.to_params(m), Default::default()), *ss)),
        Kind::OptF64 => Box::new(Opt::<f64>(OptDensMinHash::new(m, Default::default()))),
        Kind::OptF32 => Box::new(Opt::<f32>(OptDensMinHash::new(m, Default::default()))),
        Kind::RevF64 => Box::new(Rev::<f64>(RevOptDensMinHash::new(m, Default::default()))),
        Kind::RevF32 => Box::new(Rev::<f32>(RevOptDensMinHash::new(m, Default::default()))),
        Kind::SetU32NoHash => Box::new(SetSk::<u32, NoHashHasher>(SetSketcher::new(ss.to_params(m), Default::default()), *ss)),
        Kind::OptF64NoHash => Box::new(Opt::<f64, NoHashHasher>(OptDensMinHash::new(m, Default::default()))),
        Kind::RevF64NoHash => Box::new(Rev::<f64, NoHashHasher>(RevOptDensMinHash::new(m, Default::default()))),
        Kind::SetI16 => Box::new(SetSk::<i16>(SetSketcher::new(ss.to_params(m), Default::default()), *ss)),
        Kind::SetI64 => Box::new(SetSk::<i64>(SetSketcher::new(ss.to_params(m), Default::default()), *ss)),
    }
}
