//! a serialisable description of "one sketch computation" for every sketcher of the crate, and its evaluation
//! to a flat bit pattern (used by the purity property C12, in-process, across threads and across processes)
use crate::gen::*;
use crate::pmh::*;
use crate::sk::*;
use crate::util::*;
use fnv::FnvHasher;
use probminhash::probminhasher::probordminhash2::ProbOrdMinHash2;
use proptest::prelude::*;
use serde::{Deserialize, Serialize};
use wyhash::WyHash;

#[derive(Clone, Debug, Serialize, Deserialize)]
pub enum Spec {
    Pmh { variant: Variant, hasher: HasherKind, m: usize, items: Vec<(u64, F)>, entry: u8 },
    ShaStr { m: usize, items: Vec<(String, F)> },
    Unw { kind: Kind, m: usize, ss: SsParams, items: Vec<u64>, pres: Presentation },
    Ord { m: u32, l: usize, wy: bool, seq: Vec<u16> },
}

impl Spec {
    pub fn type_name(&self) -> String {
        match self {
            Spec::Pmh { variant, .. } => format!("{:?}", variant),
            Spec::ShaStr { .. } => "P3aSha<String>".into(),
            Spec::Unw { kind, .. } => format!("{:?}", kind),
            Spec::Ord { .. } => "ProbOrdMinHash2".into(),
        }
    }
    pub fn input_len(&self) -> usize {
        match self {
            Spec::Pmh { items, .. } => items.len(),
            Spec::ShaStr { items, .. } => items.len(),
            Spec::Unw { items, .. } => items.len(),
            Spec::Ord { seq, .. } => seq.len(),
        }
    }
    /// build a NEW sketcher instance, feed the input, return every sketch view as a flat bit pattern
    pub fn compute(&self) -> Vec<u64> {
        self.compute_with_history(false)
    }

    /// with `recycled`: the instance first processes unrelated data and is then reset (reinit / reset / self-clearing hash_set)
    /// where the type offers that; types without a reset are simply new instances
    pub fn compute_with_history(&self, recycled: bool) -> Vec<u64> {
        match self {
            Spec::Pmh { variant: Variant::P2, hasher, m, items, .. } if recycled => {
                fn run<H: std::hash::Hasher + Default>(m: usize, items: &[(u64, F)]) -> Vec<u64> {
                    let mut s = probminhash::probminhasher::ProbMinHash2::<u64, H>::new(m, PLACEHOLDER);
                    for i in 0..(m as u64 + 3) {
                        s.hash_item(0xABCD_0000 + i, 1.0 + i as f64);
                    }
                    if let Some((d, w)) = items.first() {
                        s.hash_item(*d, w.0);
                    }
                    s.reset();
                    for (d, w) in items {
                        s.hash_item(*d, w.0);
                    }
                    s.get_signature().clone()
                }
                return match hasher {
                    HasherKind::Fnv => run::<FnvHasher>(*m, items),
                    HasherKind::NoHash => run::<probminhash::nohasher::NoHashHasher>(*m, items),
                    HasherKind::Wy => run::<WyHash>(*m, items),
                    HasherKind::Xx64 => run::<twox_hash::XxHash64>(*m, items),
                };
            }
            _ => {}
        }
        match self {
            Spec::Pmh { variant, hasher, m, items, entry } => {
                let avail = entries(*variant);
                let e = avail[*entry as usize % avail.len()];
                let plain: Vec<(u64, f64)> = items.iter().map(|(d, w)| (*d, w.0)).collect();
                let o = run_pmh(*variant, *hasher, *m, &[(e, plain)]);
                o.sig
            }
            Spec::ShaStr { m, items } => {
                let plain: Vec<(String, f64)> = items.iter().map(|(d, w)| (d.clone(), w.0)).collect();
                // through a std HashMap (per-instance RandomState => per-instance iteration order)
                let mut s = probminhash::probminhasher::ProbMinHash3aSha::<String>::new(*m, String::from("\u{0}placeholder"));
                let map: std::collections::HashMap<String, f64> = plain.into_iter().collect();
                s.hash_weigthed_hashmap(&map);
                s.get_signature().iter().map(|x| hash_str(x)).collect()
            }
            Spec::Unw { kind, m, ss, items, pres } => {
                let mut s = make(*kind, *m, ss);
                if recycled {
                    // unrelated items, ending with the item that will come first after the reinit
                    let mut junk: Vec<u64> = (0..(2 * *m as u64 + 5)).map(|i| splitmix64(0xD15EA5E ^ i)).collect();
                    if let Some(first) = pres.stream(items).first() {
                        junk.push(*first);
                    }
                    s.slice(&junk);
                    s.reinit();
                }
                if kind.is_dens() {
                    let st = pres.stream(items);
                    s.slice(&st);
                } else {
                    for (as_slice, chunk) in pres.chunks(items) {
                        if as_slice && !chunk.is_empty() {
                            s.slice(&chunk);
                        } else {
                            for x in &chunk {
                                s.sketch(*x);
                            }
                        }
                    }
                }
                let v = s.views();
                let mut out = vec![];
                for (_, vals) in v.v {
                    out.extend(vals);
                    out.push(0xFEED_FACE_CAFE_BEEF);
                }
                out
            }
            Spec::Ord { m, l, wy, seq } => {
                let data: Vec<u64> = seq.iter().map(|x| 7000 + *x as u64).collect();
                let mut junk: Vec<u64> = (0..(*l as u64 + 7)).map(|i| 7000 + (i * 5) % 11).collect();
                junk.push(data[0]);
                if *wy {
                    let mut h = ProbOrdMinHash2::<WyHash>::new(*m, *l);
                    if recycled {
                        let _ = h.hash_set(&junk);
                    }
                    h.hash_set(&data)
                } else {
                    let mut h = ProbOrdMinHash2::<FnvHasher>::new(*m, *l);
                    if recycled {
                        let _ = h.hash_set(&junk);
                    }
                    h.hash_set(&data)
                }
            }
        }
    }
}

/// only the std-HashMap entry points of the four ProbMinHash variants (every instance of the input map has its own RandomState,
/// hence its own iteration order)
pub fn hashmap_spec_strategy(max_m: usize, max_n: usize) -> impl Strategy<Value = Spec> {
    (variant_strategy(), hasher_strategy(), weighted_set(2, max_n.min(200), true)).prop_flat_map(move |(variant, hasher, items)| {
        let pos = crate::pmh::entries(variant).iter().position(|e| *e == crate::pmh::Entry::HashMap).unwrap_or(0) as u8;
        crate::gen::m_strategy(min_m(variant), max_m).prop_map(move |m| Spec::Pmh { variant, hasher, m, items: items.clone(), entry: pos })
    })
}

pub fn spec_strategy(max_m: usize, max_n: usize) -> impl Strategy<Value = Spec> {
    let pmh = (variant_strategy(), hasher_strategy(), weighted_set(1, max_n.min(120), true), any::<u8>())
        .prop_flat_map(move |(variant, hasher, items, entry)| crate::gen::m_strategy(min_m(variant), max_m).prop_map(move |m| Spec::Pmh { variant, hasher, m, items: items.clone(), entry }));
    let sha = (crate::gen::m_strategy(2, max_m), prop::collection::btree_map("[a-zA-Z0-9éß ]{0,12}", log_uniform(-3.0, 3.0).prop_map(F), 1..40)).prop_map(|(m, map)| Spec::ShaStr { m, items: map.into_iter().collect() });
    let unw = (kind_strategy(), crate::gen::m_strategy(1, max_m)).prop_flat_map(move |(kind, m)| {
        (ss_params(m), item_set(1, max_n)).prop_flat_map(move |(ss, items)| {
            let n = items.len();
            presentation(n).prop_map(move |pres| Spec::Unw { kind, m, ss, items: items.clone(), pres })
        })
    });
    let ord = (prop_oneof![Just(1u32), 2u32..70], prop_oneof![6 => 1usize..6, 1 => 6usize..=15], any::<bool>(), 1u16..12).prop_flat_map(|(m, l, wy, alpha)| prop::collection::vec(0u16..alpha, l..(l + 20)).prop_map(move |seq| Spec::Ord { m, l, wy, seq }));
    prop_oneof![4 => pmh, 1 => sha, 6 => unw, 2 => ord]
}
