//! C17 - the lazy shuffle yields uniform permutations and forgets history on reset
use crate::dist::L;
use crate::fw::*;
use crate::stat::*;
use crate::util::*;
use probminhash::fyshuffle::FYshuffle;
use proptest::prelude::*;
use rand::{RngCore, SeedableRng};
use rand_xoshiro::Xoshiro256PlusPlus;
use serde::{Deserialize, Serialize};
use serde_json::Value;

/// generator whose words come from the generated case; when the script is exhausted it continues with a splitmix stream
pub struct Scripted {
    words: Vec<u64>,
    pos: usize,
    tail: SmRng,
}
impl Scripted {
    pub fn new(words: &[u64], tail_seed: u64) -> Self {
        Scripted { words: words.to_vec(), pos: 0, tail: SmRng::new(tail_seed) }
    }
}
impl RngCore for Scripted {
    fn next_u32(&mut self) -> u32 {
        (self.next_u64() >> 32) as u32
    }
    fn next_u64(&mut self) -> u64 {
        let w = if self.pos < self.words.len() { self.words[self.pos] } else { self.tail.next_u64() };
        self.pos += 1;
        w
    }
    fn fill_bytes(&mut self, dst: &mut [u8]) {
        for chunk in dst.chunks_mut(8) {
            let w = self.next_u64().to_le_bytes();
            chunk.copy_from_slice(&w[..chunk.len()]);
        }
    }
}

#[derive(Clone, Debug, Serialize, Deserialize)]
pub struct Case {
    pub m: usize,
    /// scripted generator words (the rest of the stream is a seeded splitmix sequence)
    pub words: Vec<u64>,
    pub tail_seed: u64,
    /// number of draws made before the reset on the instance with history
    pub pre_draws: usize,
    /// number of full blocks of m draws compared after the reset
    pub blocks: usize,
}

fn word() -> impl Strategy<Value = u64> {
    prop_oneof![
        4 => any::<u64>(),
        2 => prop::sample::select(vec![0u64, u64::MAX, u64::MAX - 1, 1, 1u64 << 63, (1u64 << 63) - 1, u64::MAX << 11, (u64::MAX << 11) - 1, 0x7FF, 0x800]),
        1 => (0u64..4096).prop_map(|x| u64::MAX - x),
        1 => (0u64..4096),
    ]
}

fn strategy(max_m: usize) -> impl Strategy<Value = Case> {
    (prop_oneof![2 => 1usize..=8, 2 => 1usize..=max_m, 1 => prop::sample::select(vec![1usize, 2, 3, 4, 5, 16, 17, 64, 100, 128, 200])], any::<u64>(), 1usize..4).prop_flat_map(|(m, tail_seed, blocks)| {
        (prop::collection::vec(word(), 0..=(2 * m + 3)), 0usize..=(3 * m + 2)).prop_map(move |(words, pre_draws)| Case { m, words, tail_seed, pre_draws, blocks })
    })
}

fn is_perm(v: &[usize], m: usize) -> bool {
    if v.len() != m {
        return false;
    }
    let mut seen = vec![false; m];
    for x in v {
        if *x >= m || seen[*x] {
            return false;
        }
        seen[*x] = true;
    }
    true
}

pub fn eval(c: &Case) -> Eval {
    let m = c.m;
    // (1) a new instance
    let mut fresh = FYshuffle::new(m);
    let mut g1 = Scripted::new(&c.words, c.tail_seed);
    // (2) an instance with history, then reset; the history uses an unrelated generator
    let mut used = FYshuffle::new(m);
    let mut gh = Scripted::new(&[], c.tail_seed ^ 0xABCDEF);
    for _ in 0..c.pre_draws {
        let x = used.next(&mut gh);
        ensure!(x < m, "m = {}: a draw returned {} which is not in 0..m", m, x);
    }
    used.reset();
    let mut g2 = Scripted::new(&c.words, c.tail_seed);
    // (3) an explicitly reset new instance
    let mut reset_new = FYshuffle::new(m);
    reset_new.reset();
    let mut g3 = Scripted::new(&c.words, c.tail_seed);
    for blk in 0..c.blocks {
        let mut d1 = Vec::with_capacity(m);
        let mut d2 = Vec::with_capacity(m);
        let mut d3 = Vec::with_capacity(m);
        for _ in 0..m {
            d1.push(fresh.next(&mut g1));
            d2.push(used.next(&mut g2));
            d3.push(reset_new.next(&mut g3));
        }
        ensure!(is_perm(&d1, m), "m = {}: block {} of m draws {:?} is not a permutation of 0..m (generator words {:x?})", m, blk, d1, &c.words[..c.words.len().min(8)]);
        ensure!(d1 == d2, "m = {}: after {} earlier draws and a reset the draws {:?} differ from those of a new instance {:?} fed the same generator words", m, c.pre_draws, d2, d1);
        ensure!(d1 == d3, "m = {}: a reset new instance draws {:?}, a new instance {:?}", m, d3, d1);
        ensure!(is_perm(fresh.get_values(), m), "m = {}: get_values() after a full block is not a permutation: {:?}", m, fresh.get_values());
        ensure!(fresh.get_values() == used.get_values(), "m = {}: get_values() differs between a new instance and one with history + reset", m);
        if blk == 0 {
            // after exactly m draws following a reset, get_values is the permutation that was drawn
            ensure!(*fresh.get_values() == d1, "m = {}: get_values() {:?} is not the sequence of the m draws {:?}", m, fresh.get_values(), d1);
        }
    }
    let edge = c.words.iter().take(m * c.blocks).any(|w| *w == 0 || *w >= u64::MAX - 4096 || *w == u64::MAX << 11);
    Ok(Report::new(m >= 2)
        .class_if(m == 1, "m=1")
        .class_if(c.pre_draws % m != 0, "reset-in-the-middle-of-a-block")
        .class_if(c.pre_draws > m, "history-longer-than-a-block")
        .class_if(edge, "edge-generator-words")
        .class_if(c.blocks > 1, "several-blocks-without-reset"))
}

// -------------------------------------------------------------------------------------------------
// uniformity under a uniform generator

#[derive(Clone, Debug, Serialize, Deserialize)]
pub struct UniCase {
    pub m: usize,
    pub n: u64,
    pub seed: u64,
    /// reset before every permutation (true) or rely on the automatic wrap-around (false)
    pub reset_each: bool,
}

fn perm_index(p: &[usize]) -> usize {
    // Lehmer code
    let m = p.len();
    let mut idx = 0usize;
    for i in 0..m {
        let smaller = p[i + 1..].iter().filter(|x| **x < p[i]).count();
        idx = idx * (m - i) + smaller;
    }
    idx
}

fn uni_counts(c: &UniCase, seed: u64, n: u64) -> (Vec<u64>, Vec<u64>) {
    let m = c.m;
    let mut rng = Xoshiro256PlusPlus::seed_from_u64(seed);
    let mut fy = FYshuffle::new(m);
    let cells_perm = if m <= 5 { factorial(m) } else { 0 };
    let mut perm_counts = vec![0u64; cells_perm];
    let mut pos_counts = vec![0u64; m * m];
    let mut p = vec![0usize; m];
    for _ in 0..n {
        if c.reset_each {
            fy.reset();
        }
        for i in 0..m {
            p[i] = fy.next(&mut rng);
            pos_counts[i * m + p[i]] += 1;
        }
        if cells_perm > 0 {
            perm_counts[perm_index(&p)] += 1;
        }
    }
    (perm_counts, pos_counts)
}

fn cells_ok(counts: &[u64], n: u64, prob: f64, l: f64) -> Option<(usize, f64, f64)> {
    let lc = l + (counts.len().max(1) as f64).ln();
    let tol = bernstein_tol(prob * (1.0 - prob), 1.0, lc, n as f64);
    for (i, c) in counts.iter().enumerate() {
        let f = *c as f64 / n as f64;
        if (f - prob).abs() > tol {
            return Some((i, f, tol));
        }
    }
    None
}

pub fn eval_uni(c: &UniCase) -> Eval {
    let m = c.m;
    let check = |seed: u64, n: u64| -> Option<String> {
        let (pc, qc) = uni_counts(c, seed, n);
        if !pc.is_empty() {
            if let Some((i, f, tol)) = cells_ok(&pc, n, 1.0 / pc.len() as f64, L) {
                return Some(format!("m = {}: permutation #{} (Lehmer index) has frequency {:.6}, expected {:.6} +- {:.6} (N = {})", m, i, f, 1.0 / pc.len() as f64, tol, n));
            }
        }
        if let Some((i, f, tol)) = cells_ok(&qc, n, 1.0 / m as f64, L) {
            return Some(format!("m = {}: value {} at draw {} has frequency {:.6}, expected {:.6} +- {:.6} (N = {})", m, i % m, i / m, f, 1.0 / m as f64, tol, n));
        }
        None
    };
    if let Some(first) = check(c.seed, c.n) {
        if let Some(second) = check(splitmix64(c.seed ^ 0xC0FFEE), 4 * c.n) {
            return Err(Fail::new(format!("{} ; confirmed on an independent seed: {}", first, second)));
        }
    }
    let lc = L + ((m * m) as f64).ln();
    Ok(Report::new(m >= 2).trials(c.n).resolution(bernstein_tol((1.0 / m as f64) * (1.0 - 1.0 / m as f64), 1.0, lc, c.n as f64)).class_if(m <= 5, "all-m!-cells").class_if(!c.reset_each, "wrap-around-without-reset").class(format!("m<={}", m.next_power_of_two())))
}

fn uni_strategy(n: u64) -> impl Strategy<Value = UniCase> {
    (prop_oneof![3 => 2usize..=5, 2 => 6usize..=64], any::<u64>(), any::<bool>()).prop_map(move |(m, seed, reset_each)| UniCase { m, n: (n / m as u64).max(20_000), seed, reset_each })
}

// -------------------------------------------------------------------------------------------------
// very large m with extreme generator words, and exact uniformity of the first draw over a dyadic grid of generator words

#[derive(Clone, Debug, Serialize, Deserialize)]
pub struct EdgeCase {
    pub m: usize,
    pub words: Vec<u64>,
    /// number of bits of the dyadic grid (0 = skip the grid part)
    pub grid_bits: u32,
}

pub fn eval_edge(c: &EdgeCase) -> Eval {
    let m = c.m;
    let mut fy = FYshuffle::new(m);
    let mut g = Scripted::new(&c.words, 0x17);
    let mut seen = std::collections::HashSet::new();
    for (i, w) in c.words.iter().enumerate() {
        let x = match catch(|| fy.next(&mut g)) {
            Ok(x) => x,
            Err(p) => return Err(Fail::new(format!("m = {}: draw {} with generator word {:#x} aborted: {}", m, i, w, p))),
        };
        ensure!(x < m, "m = {}: draw {} with generator word {:#x} returned {} which is not in 0..m", m, i, w, x);
        ensure!(seen.insert(x), "m = {}: value {} drawn twice within one block (draw {}, generator word {:#x})", m, x, i, w);
    }
    // dyadic grid: the generator words j * 2^(64-k), j = 0..2^k, are equally spaced over the unit interval; when m divides 2^k
    // the first draw after a reset must hit every value exactly 2^k / m times (exact arithmetic, no statistics)
    let mut grid_checked = false;
    if c.grid_bits > 0 && m.is_power_of_two() && m <= (1usize << c.grid_bits) && m <= 4096 {
        let k = c.grid_bits;
        let mut counts = vec![0u32; m];
        let mut f2 = FYshuffle::new(m);
        for j in 0..(1u64 << k) {
            f2.reset();
            let mut g = Scripted::new(&[j << (64 - k)], 1);
            counts[f2.next(&mut g)] += 1;
        }
        let want = (1u32 << k) / m as u32;
        for (v, cnt) in counts.iter().enumerate() {
            ensure!(*cnt == want, "m = {}: over the {} equally spaced generator words j*2^{} the first draw returns value {} {} times instead of {}", m, 1u64 << k, 64 - k, v, cnt, want);
        }
        grid_checked = true;
    }
    Ok(Report::new(true).class_if(m > (1 << 24), "m>2^24").class_if(m > 65536, "m>2^16").class_if(grid_checked, "dyadic-grid-exact-uniformity"))
}

/// cell boundaries of a draw (exact): see `eval_cells`
#[derive(Clone, Debug, Serialize, Deserialize)]
pub struct CellCase {
    pub m: usize,
    /// positions, reduced modulo the number of values still undrawn
    pub cells: Vec<u64>,
    /// generator words of the draws made before the examined one (0..3 of them)
    #[serde(default)]
    pub pre: Vec<u64>,
}

/// After a reset and the fixed earlier draws `pre`, the next draw is a function of one generator word. When the words mapped to one
/// value form an interval (verified on the build under test over 65 probe words: no value may come back after another one appeared;
/// otherwise the sub-check is skipped), uniformity of the draw over the r = m - |pre| values still undrawn requires every interval to
/// have length 1/r, i.e. the boundaries to sit at p/r. Exact check at resolution 2^-40: the words p/r + 2^-40 and (p+1)/r - 2^-40 must
/// give the same value, and the next cell a different one. A variate of too low resolution, a scaled range or a masked index moves
/// the boundaries.
pub fn eval_cells(c: &CellCase) -> Eval {
    let m = c.m;
    ensure!(m >= 2 && c.pre.len() + 2 <= m, "generator error");
    let r = (m - c.pre.len()) as u128;
    let mut fy = FYshuffle::new(m);
    let mut words = c.pre.clone();
    words.push(0);
    let np = c.pre.len();
    let mut draw = |w: u64| -> usize {
        fy.reset();
        words[np] = w;
        let mut g = Scripted::new(&words, 1);
        let mut x = 0;
        for _ in 0..=np {
            x = fy.next(&mut g);
        }
        x
    };
    // structure probe: every value occupies one contiguous run of the 65 ordered probe words
    let probe: Vec<usize> = (0..=64u64).map(|j| draw(if j == 64 { u64::MAX } else { j << 58 })).collect();
    let mut seen = std::collections::HashSet::new();
    let mut contiguous = true;
    for i in 0..probe.len() {
        if i > 0 && probe[i] == probe[i - 1] {
            continue;
        }
        if !seen.insert(probe[i]) {
            contiguous = false;
        }
    }
    if !contiguous || seen.len() < 2 {
        return Ok(Report::new(false).class("draw-not-piecewise-constant-in-the-generator-word(skipped)"));
    }
    let d: u128 = 1u128 << 24; // 2^-40 of the unit interval, in units of 2^-64
    let edge = |p: u128| -> u128 { (p << 64) / r }; // floor(p 2^64 / r)
    let mut checked = 0u64;
    for raw in c.cells.iter() {
        let p = (*raw % r as u64) as u128;
        let lo = edge(p) + 1 + d;
        let hi = if p + 1 == r { (1u128 << 64) - 1 } else { edge(p + 1) - d };
        if hi <= lo {
            continue;
        }
        let (a, b) = (draw(lo as u64), draw(hi as u64));
        ensure!(a < m && b < m, "m = {}: draw out of range", m);
        ensure!(a == b, "m = {}, draw number {} after a reset (earlier generator words {:x?}): the generator words {:#x} and {:#x}, both inside the cell [{}/{}, {}/{}) of the unit interval (2^-40 away from its ends), give different values {} and {}: the {} values still undrawn are not hit by intervals of equal length, so the draw is not uniform", m, np + 1, c.pre, lo as u64, hi as u64, p, r, p + 1, r, a, b, r);
        if p + 1 < r {
            let nx = draw((edge(p + 1) + 1 + d) as u64);
            ensure!(nx != a, "m = {}, draw number {} after a reset (earlier generator words {:x?}): the generator words {:#x} (cell {}) and {:#x} (cell {}) of the {} equal cells of the unit interval give the same value {}: that value is drawn with probability above 1/{}", m, np + 1, c.pre, lo as u64, p, (edge(p + 1) + 1 + d) as u64, p + 1, r, a, r);
        }
        checked += 1;
    }
    Ok(Report::new(checked > 0).class_if(!m.is_power_of_two(), "m-not-a-power-of-two").class_if(m > 65536, "m>2^16").class_if(np > 0, "later-draw(after-1..3-fixed-draws)"))
}

fn cell_strategy() -> impl Strategy<Value = CellCase> {
    let m = prop_oneof![
        3 => 5usize..300,
        2 => 300usize..70_000,
        1 => 70_000usize..1_100_000,
        1 => prop::sample::select(vec![5usize, 6, 7, 1000, 4095, 4097, 65_535, 65_537, 400_000, (1 << 20) - 1, (1 << 20) + 1]),
        1 => prop::sample::select(vec![8usize, 16, 64, 128, 256, 1024, 4096, 65_536]),
    ];
    (m, prop::collection::vec(prop_oneof![4 => any::<u64>(), 1 => 0u64..3, 1 => (0u64..3).prop_map(|x| u64::MAX - x)], 1..12), prop_oneof![1 => Just(vec![]), 1 => prop::collection::vec(word(), 1..4)]).prop_map(|(m, cells, pre)| CellCase { m, cells, pre })
}

/// very many resets on one instance (each followed by a few draws): afterwards the instance must still behave like a new one
#[derive(Clone, Debug, Serialize, Deserialize)]
pub struct StormCase {
    pub m: usize,
    pub resets: u32,
    pub draws_between: u8,
    pub words: Vec<u64>,
    pub tail_seed: u64,
}

pub fn eval_storm(c: &StormCase) -> Eval {
    let m = c.m;
    let mut used = FYshuffle::new(m);
    let mut g = Scripted::new(&[], c.tail_seed);
    // phase A: a few resets each followed by draws (entries get written); phase B: a long run of resets with NO draw in between
    // (nothing overwrites the entries written in phase A); then the final reset
    let phase_a = 1 + (c.draws_between as u32) * 7 % 37;
    for r in 0..c.resets {
        used.reset();
        if r < phase_a {
            for _ in 0..(1 + (r as usize * 7 + 3) % m) {
                let x = used.next(&mut g);
                ensure!(x < m, "m = {}: draw out of range after {} resets", m, r);
            }
        }
    }
    used.reset();
    let mut fresh = FYshuffle::new(m);
    ensure!(used.get_values() == fresh.get_values() || true, "unreachable");
    let (mut g1, mut g2) = (Scripted::new(&c.words, c.tail_seed ^ 1), Scripted::new(&c.words, c.tail_seed ^ 1));
    let (mut d1, mut d2) = (vec![], vec![]);
    for _ in 0..m {
        d1.push(fresh.next(&mut g1));
        d2.push(used.next(&mut g2));
    }
    ensure!(is_perm(&d2, m), "m = {}: after {} resets a block of m draws is not a permutation: {:?}", m, c.resets, &d2[..m.min(16)]);
    ensure!(d1 == d2, "m = {}: after {} resets (with up to {} draws in between) and a final reset the draws {:?} differ from those of a new instance {:?} fed the same generator words", m, c.resets, c.draws_between, &d2[..m.min(16)], &d1[..m.min(16)]);
    ensure!(fresh.get_values() == used.get_values(), "m = {}: get_values() differs from a new instance after {} resets", m, c.resets);
    Ok(Report::new(true).class_if(c.resets > 65536, "resets>65536"))
}

fn storm_strategy() -> impl Strategy<Value = StormCase> {
    (2usize..24, prop_oneof![2 => (0u32..45).prop_map(|d| 65_540 - d), 1 => (0u32..45).prop_map(|d| 131_076 - d), 1 => 100u32..2000], 1u8..40, prop::collection::vec(word(), 0..8), any::<u64>())
        .prop_map(|(m, resets, draws_between, words, tail_seed)| StormCase { m, resets, draws_between, words, tail_seed })
}

fn edge_strategy() -> impl Strategy<Value = EdgeCase> {
    let big = prop::sample::select(vec![65_537usize, (1 << 20) + 3, (1 << 24) - 1, (1 << 24) + 1, (1 << 24) + 3, (1 << 24) + 2]);
    let small = prop::sample::select(vec![2usize, 4, 8, 16, 64, 256, 1024]);
    prop_oneof![
        1 => (big, prop::collection::vec(word(), 1..6)).prop_map(|(m, mut words)| {
            words.insert(0, u64::MAX);
            EdgeCase { m, words, grid_bits: 0 }
        }),
        2 => (small, prop::collection::vec(word(), 0..2), 8u32..13).prop_map(|(m, words, grid_bits)| EdgeCase { m, words, grid_bits }),
    ]
}

pub fn run(ctx: &Ctx) {
    ctx.set_rule("(a) exact: proptest generates (m in 1..200, scripted generator words incl. 0, u64::MAX and the words around the top of the unit interval, a count of earlier draws before a reset, 1..3 blocks); a new instance, a reset new instance and an instance with history + reset \
        are fed the identical word stream: every block of m draws must be a permutation of 0..m-1, the three instances must agree draw by draw, get_values() must be a permutation (and equal the drawn sequence after the first block). Non-trivial = m >= 2. \
        (b) uniformity: with a Xoshiro256++ generator seeded from the case, N permutations are drawn (with reset each time, or relying on the wrap-around); for m <= 5 all m! orders, and for every m <= 64 all m^2 (draw index, value) cells must have frequency 1/cells within a per-cell Bernstein bound with a union bound over the cells (delta 1e-14), confirmed on an independent seed. (c) edges: sizes up to 2^24 + 3 with generator words at the top of the unit interval (draws must stay in range and distinct); exact uniformity of the first draw over the dyadic grid of generator words j*2^(64-k) for m a power of two; cells: for m in 5 .. 1.1e6 (powers of two and others), 0..3 fixed earlier draws and generated cells p of the r values still undrawn, the generator words p/r + 2^-40 and (p+1)/r - 2^-40 must give the same value and the neighbouring cell a different one (exact; applies when the draw is piecewise constant with one interval per value, which is verified per case over 65 probe words and the case is reported as skipped otherwise). (d) reset-storm: 100 .. 131 080 resets on one instance with a few draws in between, then compared draw by draw with a new instance.");
    ctx.assume("no bit-exact reference shuffle is used: a different but correct Fisher-Yates implementation would not be flagged");
    super::run_fixed_tier(ctx, replay);
    let (cases, max_m) = ctx.tier.pick((150_000, 200), (3_000_000, 600));
    ctx.drive("exact", cases, 16, 4000, || strategy(max_m), eval);
    let cases = ctx.tier.pick(96, 960);
    ctx.drive("edges", cases, 16, 10, edge_strategy, eval_edge);
    let cases = ctx.tier.pick(8_000, 160_000);
    ctx.drive("cells", cases, 16, 40, cell_strategy, eval_cells);
    let cases = ctx.tier.pick(160, 3200);
    ctx.drive("reset-storm", cases, 16, 6, storm_strategy, eval_storm);
    let (cases, n) = ctx.tier.pick((48, 6_000_000), (480, 40_000_000));
    ctx.drive("uniformity", cases, 16, 12, || uni_strategy(n), eval_uni);
}

pub fn replay(ctx: &Ctx, sub: &str, case: &Value) -> Result<(), String> {
    if sub == "reset-storm" {
        let c: StormCase = parse_case(case)?;
        ctx.run_fixed(sub, &c, eval_storm);
    } else if sub == "cells" {
        let c: CellCase = parse_case(case)?;
        ctx.run_fixed(sub, &c, eval_cells);
    } else if sub == "edges" {
        let c: EdgeCase = parse_case(case)?;
        ctx.run_fixed(sub, &c, eval_edge);
    } else if sub == "uniformity" {
        let c: UniCase = parse_case(case)?;
        ctx.run_fixed(sub, &c, eval_uni);
    } else {
        let c: Case = parse_case(case)?;
        ctx.run_fixed(sub, &c, eval);
    }
    Ok(())
}

