//! C14 - similarity estimators are total, symmetric and exact on their inputs
use crate::fw::*;
use crate::gen::*;
use crate::sk::SsParams;
use crate::util::*;
use fnv::FnvHasher;
use probminhash::jaccard;
use probminhash::setsketcher::{MleJaccard, SetSketcher};
use probminhash::superminhasher::{self, SuperMinHash};
use probminhash::superminhasher2::{self, SuperMinHash2};
use proptest::prelude::*;
use serde::{Deserialize, Serialize};
use serde_json::{json, Value};
use std::collections::BTreeSet;

#[derive(Clone, Copy, Debug, Serialize, Deserialize, PartialEq, Eq)]
pub enum Ty {
    U16,
    U32,
    U64,
    F32,
    F64,
    Str,
}

#[derive(Clone, Debug, Serialize, Deserialize)]
pub struct Case {
    pub ty: Ty,
    /// raw words the first vector is decoded from
    pub base: Vec<u64>,
    /// positions (mapped onto 0..len) at which the second vector differs
    pub flips: Vec<u16>,
    /// when set: the second vector gets this length instead (mismatch sub-property)
    pub other_len: Option<usize>,
}

fn strategy(max_len: usize) -> impl Strategy<Value = Case> {
    (prop::sample::select(vec![Ty::U16, Ty::U32, Ty::U64, Ty::F32, Ty::F64, Ty::Str]), prop_oneof![2 => 1usize..8, 2 => 1usize..=max_len]).prop_flat_map(move |(ty, len)| {
        // random bit patterns, tiny integers, zero, and bit patterns of small-magnitude floats (1e-30 .. 1) as found in sketches of huge sets
        let words = prop::collection::vec(prop_oneof![3 => any::<u64>(), 2 => 0u64..4, 1 => Just(0u64), 2 => (0x3980_0000_0000_0000u64..0x3FF0_0000_0000_0000u64), 1 => (0x0D80_0000u64..0x3F80_0000u64)], len);
        let flips = prop_oneof![1 => Just(vec![]), 3 => prop::collection::vec(any::<u16>(), 0..=len.min(20)), 1 => prop::collection::vec(any::<u16>(), len..=2 * len)];
        let other = prop_oneof![5 => Just(None), 1 => (0usize..=len + 3).prop_map(Some)];
        (words, flips, other).prop_map(move |(base, flips, other_len)| Case { ty, base, flips, other_len: other_len.filter(|l| *l != len) })
    })
}

/// outcome of one estimator call
#[derive(Debug, Clone, PartialEq)]
enum Res {
    Val(f64),
    Err,
    Panic(String),
}

fn call(f: impl FnOnce() -> Option<f64>) -> Res {
    match catch(f) {
        Ok(Some(v)) => Res::Val(v),
        Ok(None) => Res::Err,
        Err(p) => Res::Panic(p),
    }
}

trait Elem: PartialEq + Clone + std::fmt::Debug {
    fn decode(w: u64) -> Self;
    /// a value different from self under PartialEq; mode selects how far away (0/1: adjacent representable values)
    fn other(&self, mode: u16) -> Self;
}
impl Elem for u16 {
    fn decode(w: u64) -> Self {
        w as u16
    }
    fn other(&self, mode: u16) -> Self {
        match mode % 4 {
            0 => self.wrapping_add(1),
            1 => self.wrapping_sub(1),
            2 => !*self,
            _ => self.wrapping_add(0x55),
        }
    }
}
impl Elem for u32 {
    fn decode(w: u64) -> Self {
        w as u32
    }
    fn other(&self, mode: u16) -> Self {
        match mode % 4 {
            0 => self.wrapping_add(1),
            1 => self.wrapping_sub(1),
            2 => !*self,
            _ => self.wrapping_add(0x55),
        }
    }
}
impl Elem for u64 {
    fn decode(w: u64) -> Self {
        w
    }
    fn other(&self, mode: u16) -> Self {
        match mode % 4 {
            0 => self.wrapping_add(1),
            1 => self.wrapping_sub(1),
            2 => !*self,
            _ => self.wrapping_add(0x55),
        }
    }
}
impl Elem for f32 {
    fn decode(w: u64) -> Self {
        let x = f32::from_bits(w as u32);
        if x.is_finite() {
            x
        } else {
            (w % 1000) as f32
        }
    }
    fn other(&self, mode: u16) -> Self {
        let adj = |up: bool| {
            // adjacent representable value (never equal to self under ==, never NaN/inf for finite self below MAX)
            let b = self.to_bits();
            let cand = if *self == 0.0 { f32::from_bits(1) } else if (*self > 0.0) == up { f32::from_bits(b + 1) } else { f32::from_bits(b - 1) };
            if cand.is_finite() && cand != *self { cand } else { 1.5 }
        };
        let r = match mode % 4 {
            0 => adj(true),
            1 => adj(false),
            2 => *self + 1.0,
            _ => 1.5,
        };
        if r != *self && r.is_finite() { r } else if *self == 2.5 { 1.5 } else { 2.5 }
    }
}
impl Elem for f64 {
    fn decode(w: u64) -> Self {
        let x = f64::from_bits(w);
        if x.is_finite() {
            x
        } else {
            (w % 1000) as f64
        }
    }
    fn other(&self, mode: u16) -> Self {
        let adj = |up: bool| {
            let b = self.to_bits();
            let cand = if *self == 0.0 { f64::from_bits(1) } else if (*self > 0.0) == up { f64::from_bits(b + 1) } else { f64::from_bits(b - 1) };
            if cand.is_finite() && cand != *self { cand } else { 1.5 }
        };
        let r = match mode % 4 {
            0 => adj(true),
            1 => adj(false),
            2 => *self + 1.0,
            _ => 1.5,
        };
        if r != *self && r.is_finite() { r } else if *self == 2.5 { 1.5 } else { 2.5 }
    }
}
impl Elem for String {
    fn decode(w: u64) -> Self {
        format!("k{:x}", w % 0xFFFFF)
    }
    fn other(&self, mode: u16) -> Self {
        if mode % 2 == 0 { format!("{}'", self) } else { self.to_uppercase() + "_" }
    }
}

fn build<T: Elem>(c: &Case) -> (Vec<T>, Vec<T>, usize) {
    // one case in 512: vectors of 65 536 .. 135 535 positions (the base pattern repeated), nearly all of them equal
    let long = c.base[0] % 512 == 7 && c.other_len.is_none();
    let a: Vec<T> = if long {
        let len = 65_536 + (c.base[0] >> 9) as usize % 70_000;
        (0..len).map(|i| T::decode(c.base[i % c.base.len()].wrapping_add((i / c.base.len()) as u64))).collect()
    } else {
        c.base.iter().map(|w| T::decode(*w)).collect()
    };
    let mut b = a.clone();
    let n = a.len();
    let mut flipped: BTreeSet<usize> = BTreeSet::new();
    for f in &c.flips {
        let i = idx16(*f, n);
        if flipped.insert(i) {
            b[i] = a[i].other(*f);
        }
    }
    if let Some(l) = c.other_len {
        if l < n {
            b.truncate(l);
        } else {
            while b.len() < l {
                b.push(a[b.len() % n].clone());
            }
        }
    }
    (a, b, n - flipped.len())
}

/// judge a set of estimator results against the expected value (None = lengths differ: must not be Ok)
fn judge(name: &str, got: &Res, swapped: &Res, ident: &Res, expect: Option<f64>, n: usize) -> Result<(), Fail> {
    match expect {
        Some(e) => {
            ensure!(*got == Res::Val(e), "{}: returned {:?}, expected exactly {:e} (= equal positions / length, length {})", name, got, e, n);
            ensure!(*swapped == Res::Val(e), "{}: not symmetric: {:?} with swapped arguments, {:e} expected", name, swapped, e);
            ensure!((0.0..=1.0).contains(&e), "{}: value outside [0,1]", name);
        }
        None => {
            ensure!(!matches!(got, Res::Val(_)), "{}: sketches of different lengths were accepted and gave {:?}", name, got);
            ensure!(!matches!(swapped, Res::Val(_)), "{}: sketches of different lengths (swapped) were accepted and gave {:?}", name, swapped);
        }
    }
    ensure!(*ident == Res::Val(1.0), "{}: identical sketches give {:?} instead of 1", name, ident);
    Ok(())
}

fn generic_estimators<T: Elem>(c: &Case) -> Result<(usize, bool), Fail> {
    let (a, b, eq) = build::<T>(c);
    let n = a.len();
    let same_len = b.len() == n;
    let e64 = if same_len { Some(eq as f64 / n as f64) } else { None };
    // jaccard::compute_probminhash_jaccard
    judge("jaccard::compute_probminhash_jaccard", &call(|| Some(jaccard::compute_probminhash_jaccard(&a, &b))), &call(|| Some(jaccard::compute_probminhash_jaccard(&b, &a))), &call(|| Some(jaccard::compute_probminhash_jaccard(&a, &a))), e64, n)?;
    // jaccard::get_jaccard_index_estimate
    judge("jaccard::get_jaccard_index_estimate", &call(|| jaccard::get_jaccard_index_estimate(&a, &b).ok()), &call(|| jaccard::get_jaccard_index_estimate(&b, &a).ok()), &call(|| jaccard::get_jaccard_index_estimate(&a, &a).ok()), e64, n)?;
    Ok((eq, same_len))
}

fn float_estimators<T: Elem + num::Float>(c: &Case) -> Result<(), Fail> {
    let (a, b, eq) = build::<T>(c);
    let n = a.len();
    let same_len = b.len() == n;
    // result type is F: count and length converted to F, then divided
    let ef = if same_len { Some((T::from(eq).unwrap() / T::from(n).unwrap()).to_f64().unwrap()) } else { None };
    let f = |x: &Vec<T>, y: &Vec<T>| superminhasher::compute_superminhash_jaccard(x, y).ok().map(|v| v.to_f64().unwrap());
    judge("superminhasher::compute_superminhash_jaccard", &call(|| f(&a, &b)), &call(|| f(&b, &a)), &call(|| f(&a, &a)), ef, n)?;
    let g = |x: &Vec<T>, y: &Vec<T>| superminhasher::get_jaccard_index_estimate(x, y).ok().map(|v| v.to_f64().unwrap());
    judge("superminhasher::get_jaccard_index_estimate", &call(|| g(&a, &b)), &call(|| g(&b, &a)), &call(|| g(&a, &a)), ef, n)?;
    Ok(())
}

fn int_estimators<T: Elem + num::Zero>(c: &Case) -> Result<(), Fail> {
    let (a, b, eq) = build::<T>(c);
    let n = a.len();
    let same_len = b.len() == n;
    // result type is f32
    let e32 = if same_len { Some((eq as f32 / n as f32) as f64) } else { None };
    let f = |x: &Vec<T>, y: &Vec<T>| superminhasher2::compute_superminhash_jaccard(x, y).ok().map(|v| v as f64);
    judge("superminhasher2::compute_superminhash_jaccard", &call(|| f(&a, &b)), &call(|| f(&b, &a)), &call(|| f(&a, &a)), e32, n)?;
    let g = |x: &Vec<T>, y: &Vec<T>| superminhasher2::get_jaccard_index_estimate(x, y).ok().map(|v| v as f64);
    judge("superminhasher2::get_jaccard_index_estimate", &call(|| g(&a, &b)), &call(|| g(&b, &a)), &call(|| g(&a, &a)), e32, n)?;
    Ok(())
}

/// method estimators need a sketcher holding a real sketch: two overlapping item sets derived from the case
fn method_estimators(c: &Case) -> Result<(), Fail> {
    // one case in 256 uses sketches longer than 2^16 positions (the method estimators count positions)
    let m = if c.base[0] % 1024 == 7 { 65_536 + (c.base[0] >> 8) as usize % 5_000 } else { c.base.len() };
    let items_a: Vec<u64> = (0..(m.min(300) as u64 + 3)).map(|i| splitmix64(c.base[0] ^ i)).collect();
    let cut = idx16(c.flips.first().cloned().unwrap_or(0), items_a.len());
    let items_b: Vec<u64> = items_a[cut..].iter().cloned().chain((0..cut as u64).map(|i| splitmix64(!c.base[0] ^ i))).collect();
    let other_m = if m > 65_000 { m } else { c.other_len.unwrap_or(m).max(1) };
    // for the long sketches use identical sets half of the time, so that more than 2^16 positions are equal
    let items_b: Vec<u64> = if m > 65_000 && c.base[0] & 0x100 == 0 { items_a.clone() } else { items_b };
    match c.ty {
        Ty::F32 | Ty::F64 | Ty::Str => {
            let mut sa = SuperMinHash::<f64, u64, FnvHasher>::new(m, Default::default());
            let mut sb = SuperMinHash::<f64, u64, FnvHasher>::new(other_m, Default::default());
            sa.sketch_slice(&items_a).unwrap();
            sb.sketch_slice(&items_b).unwrap();
            let (va, vb) = (sa.get_hsketch().clone(), sb.get_hsketch().clone());
            let e = if m == other_m { Some(va.iter().zip(vb.iter()).filter(|(x, y)| x == y).count() as f64 / m as f64) } else { None };
            judge("SuperMinHash::get_jaccard_index_estimate", &call(|| sa.get_jaccard_index_estimate(&vb).ok()), &call(|| sb.get_jaccard_index_estimate(&va).ok()), &call(|| sa.get_jaccard_index_estimate(&va).ok()), e, m)?;
        }
        _ => {
            let mut sa = SuperMinHash2::<u64, u64, FnvHasher>::new(m, Default::default());
            let mut sb = SuperMinHash2::<u64, u64, FnvHasher>::new(other_m, Default::default());
            sa.sketch_slice(&items_a).unwrap();
            sb.sketch_slice(&items_b).unwrap();
            let (va, vb) = (sa.get_hsketch().clone(), sb.get_hsketch().clone());
            let e = if m == other_m { Some(va.iter().zip(vb.iter()).filter(|(x, y)| x == y).count() as f64 / m as f64) } else { None };
            judge("SuperMinHash2::get_jaccard_index_estimate", &call(|| sa.get_jaccard_index_estimate(&vb).ok()), &call(|| sb.get_jaccard_index_estimate(&va).ok()), &call(|| sa.get_jaccard_index_estimate(&va).ok()), e, m)?;
        }
    }
    // the method estimators on sketchers in other states: new (nothing sketched yet), reinitialised after use, and in use, against
    // their own sketch, a vector of zeros, and the other sketcher's sketch: always exactly (equal positions) / m
    if m <= 4096 {
        let count = |x: &Vec<u64>, y: &Vec<u64>| x.iter().zip(y.iter()).filter(|(p, q)| p == q).count() as f64 / m as f64;
        let countf = |x: &Vec<f64>, y: &Vec<f64>| x.iter().zip(y.iter()).filter(|(p, q)| p == q).count() as f64 / m as f64;
        for state in 0..3u8 {
            let mut s2 = SuperMinHash2::<u64, u64, FnvHasher>::new(m, Default::default());
            let mut s1 = SuperMinHash::<f64, u64, FnvHasher>::new(m, Default::default());
            if state >= 1 {
                s2.sketch_slice(&items_a).unwrap();
                s1.sketch_slice(&items_a).unwrap();
            }
            if state == 2 {
                s2.reinit();
                s1.reinit();
            }
            let name = ["a new sketcher", "a sketcher in use", "a reinitialised sketcher"][state as usize];
            let own2 = s2.get_hsketch().clone();
            let mut used2 = SuperMinHash2::<u64, u64, FnvHasher>::new(m, Default::default());
            used2.sketch_slice(&items_b).unwrap();
            for (what, other) in [("its own sketch", own2.clone()), ("a vector of zeros", vec![0u64; m]), ("the sketch of another set", used2.get_hsketch().clone())] {
                let e = count(&own2, &other);
                let got = call(|| s2.get_jaccard_index_estimate(&other).ok());
                ensure!(got == Res::Val(e), "SuperMinHash2::get_jaccard_index_estimate on {} against {}: returned {:?}, expected exactly {:e} (= equal positions / length, length {})", name, what, got, e, m);
            }
            // strict prefixes borrowed from the sketcher's own signature (not copies): a length mismatch all the same
            for len in [m - 1, m / 2, 0] {
                if len < m {
                    let got = call(|| s1.get_jaccard_index_estimate(&s1.get_hsketch()[..len]).ok());
                    ensure!(!matches!(got, Res::Val(_)), "SuperMinHash::get_jaccard_index_estimate on {} given the first {} of its own {} sketch values (a borrowed prefix): a sketch of another length was accepted and gave {:?}", name, len, m, got);
                }
            }
            let own1 = s1.get_hsketch().clone();
            let mut used1 = SuperMinHash::<f64, u64, FnvHasher>::new(m, Default::default());
            used1.sketch_slice(&items_b).unwrap();
            for (what, other) in [("its own sketch", own1.clone()), ("a vector of zeros", vec![0f64; m]), ("the sketch of another set", used1.get_hsketch().clone())] {
                let e = countf(&own1, &other);
                let got = call(|| s1.get_jaccard_index_estimate(&other).ok());
                ensure!(got == Res::Val(e), "SuperMinHash::get_jaccard_index_estimate on {} against {}: returned {:?}, expected exactly {:e} (= equal positions / length, length {})", name, what, got, e, m);
            }
        }
    }
    Ok(())
}

pub fn eval(c: &Case) -> Eval {
    ensure!(!c.base.is_empty(), "generator error");
    let (eq, same_len) = match c.ty {
        Ty::U16 => {
            int_estimators::<u16>(c)?;
            generic_estimators::<u16>(c)?
        }
        Ty::U32 => {
            int_estimators::<u32>(c)?;
            generic_estimators::<u32>(c)?
        }
        Ty::U64 => {
            int_estimators::<u64>(c)?;
            generic_estimators::<u64>(c)?
        }
        Ty::F32 => {
            float_estimators::<f32>(c)?;
            int_estimators::<f32>(c)?;
            generic_estimators::<f32>(c)?
        }
        Ty::F64 => {
            float_estimators::<f64>(c)?;
            int_estimators::<f64>(c)?;
            generic_estimators::<f64>(c)?
        }
        Ty::Str => generic_estimators::<String>(c)?,
    };
    method_estimators(c)?;
    let n = c.base.len();
    Ok(Report::new(same_len && eq > 0 && eq < n)
        .class(format!("{:?}", c.ty))
        .class_if(!same_len, "length-mismatch")
        .class_if(same_len && eq == n, "identical")
        .class_if(same_len && eq == 0, "no-equal-position")
        .class_if(n == 1, "len=1"))
}

// ------------------------------------------------------------------------------------------------------------------
// maximum likelihood estimator (child process: argmin's terminal logger prints every iteration)

#[derive(Clone, Debug, Serialize, Deserialize)]
pub struct MleCase {
    pub wide: bool,
    pub m: usize,
    pub ss: SsParams,
    pub only_a: usize,
    pub only_b: usize,
    pub both: usize,
    pub seed: u64,
}

fn size_strategy(max: usize) -> impl Strategy<Value = usize> {
    prop_oneof![2 => Just(0usize), 1 => Just(1usize), 3 => 1usize..60, 3 => (0.0f64..(max as f64).ln()).prop_map(|l| l.exp() as usize)]
}

fn mle_strategy(max_m: usize, max_n: usize) -> impl Strategy<Value = MleCase> {
    (any::<bool>(), prop_oneof![1 => 1usize..8, 3 => crate::gen::m_strategy(1, max_m)], prop::sample::select(vec![1.001f64, 1.01, 1.2, 2.0]), size_strategy(max_n), size_strategy(max_n), size_strategy(max_n), any::<u64>()).prop_map(
        move |(wide, m, b, only_a, only_b, both, seed)| {
            // one case in 64: cardinalities differing by more than 1e7 (1..3 items against 2e7..4e7), small m to keep it cheap
            let (m, only_a, only_b, both) = if seed % 160 == 0 && max_n >= 100_000 {
                let big = 15_000_000 + (seed >> 8) as usize % 10_000_000;
                let small = 1 + (seed >> 40) as usize % 3;
                if seed & 0x80 == 0 { (1 + m % 8, small, big, 0) } else { (1 + m % 8, 0, big, small) }
            } else {
                (m, only_a, only_b, both)
            };
            // at least one item per side
            let both = if only_a + both == 0 || only_b + both == 0 { both.max(1) } else { both };
            let n = (only_a + only_b + both) as f64;
            let ss = SsParams::documented(b, m, n.max(10.0), 1.0e-6);
            // u16 registers need q + 1 <= 65535 : otherwise use wide registers as the documentation prescribes
            let wide = wide || ss.q + 1 > 65534;
            MleCase { wide, m, ss, only_a, only_b, both, seed }
        },
    )
}

fn mle_compute<I>(c: &MleCase) -> Value
where
    I: num::Integer + num::Bounded + num::ToPrimitive + num::FromPrimitive + Copy + Clone + Send + Sync + std::fmt::Debug,
    [I]: rayon::slice::ParallelSlice<I>,
{
    let p = c.ss.to_params(c.m);
    let mut sa = SetSketcher::<I, u64, FnvHasher>::new(p, Default::default());
    let mut sb = SetSketcher::<I, u64, FnvHasher>::new(p, Default::default());
    let item = |k: u64, i: usize| splitmix64(mix(&[c.seed, k]).wrapping_add(i as u64));
    for i in 0..c.only_a {
        sa.sketch(&item(1, i)).unwrap();
    }
    for i in 0..c.only_b {
        sb.sketch(&item(2, i)).unwrap();
    }
    for i in 0..c.both {
        sa.sketch(&item(3, i)).unwrap();
        sb.sketch(&item(3, i)).unwrap();
    }
    let mle = MleJaccard::from(p);
    let (x, y) = (sa.get_signature().clone(), sb.get_signature().clone());
    match catch(|| mle.get_mle(&x, &y)) {
        Ok(Some(v)) => json!({"value_bits": v.to_bits().to_string()}),
        Ok(None) => json!({"none": true}),
        Err(p) => json!({"panic": p}),
    }
}

pub fn child(inp: &Value) -> Value {
    let cases: Vec<MleCase> = serde_json::from_value(inp["cases"].clone()).unwrap_or_default();
    let outs: Vec<Value> = cases.iter().map(|c| if c.wide { mle_compute::<u32>(c) } else { mle_compute::<u16>(c) }).collect();
    json!({ "outs": outs })
}

fn mle_judge(c: &MleCase, out: &Value) -> Eval {
    let what = format!("MleJaccard::get_mle for b={:e} m={} a={:.4} q={} |A\\B|={} |B\\A|={} |A&B|={}", c.ss.b.0, c.m, c.ss.a.0, c.ss.q, c.only_a, c.only_b, c.both);
    if let Some(p) = out.get("panic") {
        return Err(Fail::new(format!("{}: aborted: {}", what, p.as_str().unwrap_or("?"))));
    }
    if out.get("none").is_some() {
        return Err(Fail::new(format!("{}: returned no value", what)));
    }
    let v = out["value_bits"].as_str().and_then(|s| s.parse::<u64>().ok()).map(f64::from_bits);
    match v {
        Some(v) => {
            ensure!(v.is_finite() && (0.0..=1.0).contains(&v), "{}: returned {:e}, not a finite value in [0,1]", what, v);
        }
        None => return Err(Fail::new(format!("{}: child returned malformed output {}", what, out))),
    }
    let (a, b) = (c.only_a + c.both, c.only_b + c.both);
    let ratio = a.max(b) as f64 / a.min(b).max(1) as f64;
    Ok(Report::new(c.only_a + c.only_b > 0 && c.both > 0)
        .class_if(c.only_a == 0 || c.only_b == 0, "nested-or-equal")
        .class_if(c.both == 0, "disjoint")
        .class_if(c.only_a + c.only_b == 0, "identical")
        .class_if(ratio >= 20.0, "cardinalities-ratio>=20")
        .class_if(ratio >= 1.0e7, "cardinalities-ratio>=1e7")
        .class_if(c.m <= 4, "m<=4")
        .class(format!("b={}", c.ss.b.0)))
}

fn mle_batch(ctx: &Ctx, cases: &[MleCase]) {
    let input = json!({ "cases": cases });
    match run_child("c14mle", &input, std::time::Duration::from_secs(1800), &[]) {
        ChildOutcome::Done(v) => {
            let outs: Vec<Value> = serde_json::from_value(v["outs"].clone()).unwrap_or_default();
            if outs.len() != cases.len() {
                ctx.infra("C14 MLE child returned a truncated batch");
                return;
            }
            for (c, o) in cases.iter().zip(outs.iter()) {
                match mle_judge(c, o) {
                    Ok(rep) => ctx.record("mle", c, &rep, true),
                    Err(f) => {
                        ctx.violation("mle", c, &f.reason);
                        return;
                    }
                }
            }
        }
        ChildOutcome::Crashed(w, e) => {
            // the whole child died (abort): find the culprit by running the cases one by one
            for c in cases {
                if let ChildOutcome::Crashed(w1, e1) = run_child("c14mle", &json!({"cases": [c]}), std::time::Duration::from_secs(300), &[]) {
                    ctx.violation("mle", c, &format!("MleJaccard::get_mle aborted the process ({}): {}", w1, e1));
                    return;
                }
            }
            ctx.infra(format!("C14 MLE child crashed ({}) but no single case reproduces it: {}", w, e));
        }
        ChildOutcome::Timeout => ctx.infra("C14 MLE child timed out"),
        ChildOutcome::Infra(e) => ctx.infra(e),
    }
}

pub fn run(ctx: &Ctx) {
    ctx.set_rule("(a) counting estimators: proptest generates (element type u16/u32/u64/f32/f64/String, a vector of 1..300 elements, a set of positions at which the second vector differs, optionally a different length); every estimator applicable to the type \
        (jaccard::compute_probminhash_jaccard, jaccard::get_jaccard_index_estimate, superminhasher::{compute_superminhash_jaccard,get_jaccard_index_estimate}, superminhasher2::{compute_superminhash_jaccard,get_jaccard_index_estimate}, \
        and the two get_jaccard_index_estimate methods on real sketches, and on new / in-use / reinitialised sketchers against their own sketch, a vector of zeros and another sketch) must return exactly equal/len computed in its own return type, be symmetric, give 1 on identical inputs and refuse (Err or panic) different lengths. Non-trivial = equal lengths with 0 < equal positions < len. \
        (b) MLE: proptest-generated (register type, m, b in {1.001,1.01,1.2,2}, documented a and q, three cardinalities from the strata 0 / 1 / small / log-uniform up to the tier maximum) pairs of sketches; get_mle runs in a child process and must return a finite value in [0,1]. Non-trivial = both a difference and an intersection.");
    ctx.assume("float elements are finite (NaN != NaN would make 'identical sketches' ill-defined)");
    super::run_fixed_tier(ctx, replay);
    let (cases, max_len) = ctx.tier.pick((150_000, 300), (3_000_000, 2000));
    ctx.drive("counting", cases, 16, 3000, || strategy(max_len), eval);
    // MLE cases: generated by a seeded proptest runner, evaluated in child processes (16 in parallel)
    let (n, max_m, max_n) = ctx.tier.pick((640, 512, 100_000), (12_800, 2048, 1_000_000));
    let cases: Vec<MleCase> = crate::props::sample_cases(ctx, "mle", &mle_strategy(max_m, max_n), n);
    let per = (cases.len() + 15) / 16;
    std::thread::scope(|s| {
        for chunk in cases.chunks(per.max(1)) {
            s.spawn(move || {
                for b in chunk.chunks(20) {
                    if ctx.n_violations() > 0 {
                        return;
                    }
                    mle_batch(ctx, b);
                }
            });
        }
    });
}

pub fn replay(ctx: &Ctx, sub: &str, case: &Value) -> Result<(), String> {
    if sub == "mle" {
        let c: MleCase = parse_case(case)?;
        mle_batch(ctx, &[c]);
    } else {
        let c: Case = parse_case(case)?;
        ctx.run_fixed(sub, &c, eval);
    }
    Ok(())
}

