//! C18 - byte identities of hashed objects are faithful and memory safe
use crate::fw::*;
use crate::sigprobe::*;
use proptest::prelude::*;
use serde_json::{json, Value};
use std::path::PathBuf;

fn len_strategy(max: usize) -> impl Strategy<Value = usize> {
    // small lengths, lengths around allocator size classes, and a few large ones
    let classes: Vec<usize> = [0usize, 1, 2, 3, 4, 5, 7, 8, 9, 12, 15, 16, 17, 23, 24, 25, 31, 32, 33, 63, 64, 65, 127, 128, 129, 255, 256, 257, 511, 512, 513, 1023, 1024, 1025, 2047, 2048, 4095, 4096, 4097, 65535, 65536, 100_000]
        .iter()
        .cloned()
        .filter(|x| *x <= max)
        .collect();
    prop_oneof![3 => 0usize..20, 3 => prop::sample::select(classes), 1 => 0usize..=max.min(5000)]
}

fn strategy(max_len: usize) -> impl Strategy<Value = SigVal> {
    let lens = move || len_strategy(max_len);
    prop_oneof![
        1 => any::<u8>().prop_map(SigVal::U8),
        1 => any::<u16>().prop_map(SigVal::U16),
        1 => any::<u32>().prop_map(SigVal::U32),
        1 => any::<u64>().prop_map(SigVal::U64),
        1 => any::<i16>().prop_map(SigVal::I16),
        1 => any::<i32>().prop_map(SigVal::I32),
        2 => "\\PC{0,40}".prop_map(SigVal::Str),
        1 => "[a-zA-Z0-9 éüß€𝄞]{0,200}".prop_map(SigVal::Str),
        3 => (lens(), any::<u64>()).prop_map(|(n, s)| SigVal::VecU8((0..n).map(|i| crate::util::splitmix64(s.wrapping_add(i as u64)) as u8).collect())),
        5 => (lens(), any::<u64>(), any::<bool>()).prop_map(|(n, s, small)| SigVal::VecU16((0..n).map(|i| if small { (i % 7) as u16 * 257 } else { crate::util::splitmix64(s.wrapping_add(i as u64)) as u16 }).collect())),
        5 => (lens(), any::<u64>(), any::<bool>()).prop_map(|(n, s, small)| SigVal::VecU32((0..n).map(|i| if small { (i % 5) as u32 } else { crate::util::splitmix64(s.wrapping_add(i as u64)) as u32 }).collect())),
    ]
}

/// very large vectors (millions of elements, lengths that are not multiples of typical block sizes)
fn big_strategy() -> impl Strategy<Value = SigVal> {
    let len = prop_oneof![prop::sample::select(vec![(1u32 << 22) + 5, (1 << 22) + 65_535, (1 << 23) + 12_345, (1 << 20) + 3, (1 << 24) + 1]), (1u32 << 20)..(1u32 << 23)];
    (len, any::<u64>(), any::<bool>()).prop_map(|(n, s, wide)| if wide { SigVal::BigU32(n, s) } else { SigVal::BigU16(n, s) })
}

fn _doc() {
}

/// child side (regular build of the harness)
pub fn child(inp: &Value) -> Value {
    let vals: Vec<SigVal> = serde_json::from_value(inp["values"].clone()).unwrap_or_default();
    let with_sha = inp["with_sha"].as_bool().unwrap_or(true);
    let outs: Vec<ProbeOut> = vals.iter().map(|v| probe(v, with_sha)).collect();
    json!({ "outs": outs })
}

fn asan_exe() -> PathBuf {
    verif_root().join("asan/target/x86_64-unknown-linux-gnu/release/pmh-sigprobe")
}

#[derive(Clone, Copy, PartialEq)]
enum Engine {
    Plain,
    Asan,
}
impl Engine {
    fn name(&self) -> &'static str {
        match self {
            Engine::Plain => "child process (regular build)",
            Engine::Asan => "child process (AddressSanitizer build)",
        }
    }
}

fn run_engine(e: Engine, vals: &[SigVal], with_sha: bool) -> ChildOutcome {
    let input = json!({ "values": vals, "with_sha": with_sha });
    let t = std::time::Duration::from_secs(600);
    match e {
        Engine::Plain => run_child("c18", &input, t, &[]),
        Engine::Asan => run_child_exe(&asan_exe(), "c18", &input, t, &[("ASAN_OPTIONS", "detect_leaks=0:abort_on_error=0:exitcode=99:symbolize=0")]),
    }
}

pub fn judge(v: &SigVal, o: &ProbeOut) -> Result<(), String> {
    let want = v.reference();
    if let Some(d) = &o.digests {
        let wd = digest(&want);
        for (i, name) in ["get_sig()", "a second get_sig()", "get_sig() of an equal value with spare capacity"].iter().enumerate() {
            if d.get(i) != Some(&wd) {
                return Err(format!("{} value of length {}: {} has (byte length, digest) {:?} but the native-endian byte representation has {:?}", v.type_name(), v.len(), name, d.get(i), wd));
            }
        }
        return Ok(());
    }
    let show = |b: &[u8]| format!("{:02x?}{}", &b[..b.len().min(24)], if b.len() > 24 { format!(".. ({} bytes)", b.len()) } else { String::new() });
    if o.sig != want {
        return Err(format!("{} value of length {}: get_sig() returned {} but the native-endian byte representation is {}", v.type_name(), v.len(), show(&o.sig), show(&want)));
    }
    if o.sig_again != want {
        return Err(format!("{} value of length {}: a second get_sig() returned {} instead of {}", v.type_name(), v.len(), show(&o.sig_again), show(&want)));
    }
    if o.sig_rebuilt != want {
        return Err(format!("{} value of length {}: an equal value with spare capacity / stale elements behind its length gives {} instead of {}", v.type_name(), v.len(), show(&o.sig_rebuilt), show(&want)));
    }
    if o.sha_fwd != o.sha_rev {
        return Err(format!("{}: ProbMinHash3aSha over keys of this type gives different signatures for two insertion orders", v.type_name()));
    }
    Ok(())
}

/// shrink a crashing value: shortest prefix (vectors / strings) that still crashes
fn shrink_crash(e: Engine, v: &SigVal) -> (SigVal, String) {
    let crash = |x: &SigVal| match run_engine(e, std::slice::from_ref(x), true) {
        ChildOutcome::Crashed(w, err) => Some(format!("{}: {}", w, summarize(&err))),
        _ => None,
    };
    let mut best = (v.clone(), crash(v).unwrap_or_else(|| "crash did not reproduce in isolation".into()));
    let n = v.len();
    let mut cand: Vec<usize> = vec![0, 1, 2, 3, 4, 8, 16];
    cand.retain(|c| *c < n);
    for c in cand {
        let shorter = match v {
            SigVal::VecU8(x) => SigVal::VecU8(x[..c].to_vec()),
            SigVal::VecU16(x) => SigVal::VecU16(x[..c].to_vec()),
            SigVal::VecU32(x) => SigVal::VecU32(x[..c].to_vec()),
            SigVal::Str(x) => SigVal::Str(x.chars().take(c).collect()),
            _ => break,
        };
        if let Some(msg) = crash(&shorter) {
            best = (shorter, msg);
            break;
        }
    }
    best
}

fn summarize(stderr: &str) -> String {
    // keep the sanitizer / allocator headline
    for line in stderr.lines() {
        let l = line.trim();
        if l.contains("ERROR: AddressSanitizer") || l.contains("double free") || l.contains("free():") || l.contains("malloc()") || l.contains("corrupted") || l.contains("SUMMARY:") || l.contains("munmap_chunk") {
            return l.chars().take(300).collect();
        }
    }
    stderr.lines().last().unwrap_or("").chars().take(300).collect()
}

/// returns false when a violation was reported
fn run_batch(ctx: &Ctx, e: Engine, vals: &[SigVal], sub: &str) -> bool {
    match run_engine(e, vals, true) {
        ChildOutcome::Done(v) => {
            let outs: Vec<ProbeOut> = serde_json::from_value(v["outs"].clone()).unwrap_or_default();
            if outs.len() != vals.len() {
                ctx.infra("C18 child returned a truncated batch");
                return true;
            }
            for (val, o) in vals.iter().zip(outs.iter()) {
                if let Err(msg) = judge(val, o) {
                    ctx.violation(sub, val, &format!("{} [{}]", msg, e.name()));
                    return false;
                }
            }
            for val in vals {
                let rep = Report::new(val.len() > 0).class(val.type_name()).class(if e == Engine::Asan { "asan" } else { "plain" }).class_if(val.len() >= 1024, "len>=1024").class_if(val.len() == 0, "empty");
                ctx.record(sub, &(val, e.name()), &rep, e == Engine::Plain);
            }
            true
        }
        ChildOutcome::Crashed(w, err) => {
            // find the shortest crashing value of the batch
            let mut order: Vec<&SigVal> = vals.iter().collect();
            order.sort_by_key(|v| v.len());
            for v in order {
                if let ChildOutcome::Crashed(_, _) = run_engine(e, std::slice::from_ref(v), true) {
                    let (min, msg) = shrink_crash(e, v);
                    ctx.violation(sub, &min, &format!("obtaining the byte identity of a {} of length {} terminates the process abnormally: {} [{}]", min.type_name(), min.len(), msg, e.name()));
                    return false;
                }
            }
            ctx.infra(format!("C18 child crashed ({}) on a batch but no single value reproduces it: {}", w, summarize(&err)));
            true
        }
        ChildOutcome::Timeout => {
            ctx.infra("C18 child timed out");
            true
        }
        ChildOutcome::Infra(m) => {
            ctx.infra(m);
            true
        }
    }
}

pub fn run(ctx: &Ctx) {
    ctx.set_rule("proptest-generated values of every type implementing the byte-identity trait (u8, u16, u32, u64, i16, i32, String incl. multi-byte text, Vec<u8>, Vec<u16>, Vec<u32>; vector lengths 0..19, around allocator size classes up to 4097, 65535/65536 and 1e5, plus a few vectors of 1e6 .. 1.7e7 elements described by (length, seed)). \
        Each value is processed in a child process built normally and again in a child built with AddressSanitizer: get_sig() twice (with allocator churn in between) must equal the independently computed native-endian bytes, and ProbMinHash3aSha over keys of that type must complete and give the same signature for two insertion orders. \
        Abnormal termination of a child (glibc abort, ASan report) is the memory-safety signal; the crashing value is isolated and shortened. Non-trivial = non-empty value. Distinct = distinct (value, engine).");
    ctx.assume("AddressSanitizer catches use-after-free, double free and out-of-bounds accesses; a deallocation with a mismatched layout is only caught by the Miri run (40 values in the quick tier, 150 in the thorough tier)");
    super::run_fixed_tier(ctx, replay);
    if !asan_exe().exists() {
        ctx.infra(format!("{} missing (./check builds it)", asan_exe().display()));
        return;
    }
    let (n, max_len) = ctx.tier.pick((4000, 100_000), (60_000, 100_000));
    let vals: Vec<SigVal> = crate::props::sample_cases(ctx, "values", &strategy(max_len), n);
    let per = (vals.len() + 15) / 16;
    std::thread::scope(|s| {
        for chunk in vals.chunks(per.max(1)) {
            s.spawn(move || {
                for b in chunk.chunks(50) {
                    for e in [Engine::Plain, Engine::Asan] {
                        if ctx.n_violations() > 0 {
                            return;
                        }
                        if !run_batch(ctx, e, b, "values") {
                            return;
                        }
                    }
                }
            });
        }
    });
    if ctx.n_violations() == 0 {
        let nbig = ctx.tier.pick(6, 60);
        let bigs: Vec<SigVal> = crate::props::sample_cases(ctx, "big-values", &big_strategy(), nbig);
        std::thread::scope(|s| {
            for chunk in bigs.chunks(1) {
                s.spawn(move || {
                    for e in [Engine::Plain, Engine::Asan] {
                        if ctx.n_violations() > 0 || !run_batch(ctx, e, chunk, "values") {
                            return;
                        }
                    }
                });
            }
        });
    }
    if ctx.n_violations() == 0 {
        // Miri on a bounded sample (40 values quick, 150 thorough): the only engine that sees a deallocation with a mismatched layout
        miri(ctx, &vals, ctx.tier.pick(40, 150));
    }
}

/// thorough tier: a bounded sample under Miri (detects layout-mismatched deallocation and other UB that ASan accepts)
fn miri(ctx: &Ctx, vals: &[SigVal], n: usize) {
    // every type is represented: the vector types first (they are the ones implemented with or tempted by unsafe code)
    let mut sample: Vec<SigVal> = vec![SigVal::VecU16(vec![1, 2, 3]), SigVal::VecU32(vec![7; 5]), SigVal::VecU8(vec![9; 4]), SigVal::Str("añb".into()), SigVal::VecU16(vec![]), SigVal::VecU32(vec![])];
    sample.extend(vals.iter().filter(|v| v.len() <= 64 && !v.is_big()).take(n.saturating_sub(sample.len())).cloned());
    let dir = verif_root().join("scratch");
    let _ = std::fs::create_dir_all(&dir);
    let pin = dir.join(format!("miri-{}.in.json", std::process::id()));
    let pout = dir.join(format!("miri-{}.out.json", std::process::id()));
    let _ = std::fs::write(&pin, serde_json::to_string(&json!({"values": sample, "with_sha": false})).unwrap());
    let out = std::process::Command::new("cargo")
        .current_dir(verif_root().join("asan"))
        .args(["+nightly", "miri", "run", "--quiet", "--"])
        .arg("child")
        .arg("c18")
        .arg(&pin)
        .arg(&pout)
        .env("MIRIFLAGS", "-Zmiri-disable-isolation")
        .env("CARGO_NET_OFFLINE", "true")
        .env("CARGO_TARGET_DIR", verif_root().join("asan/target-miri"))
        .stdout(std::process::Stdio::null())
        .output();
    let _ = std::fs::remove_file(&pin);
    match out {
        Ok(o) if o.status.success() => {
            let outs: Vec<ProbeOut> = std::fs::read_to_string(&pout).ok().and_then(|s| serde_json::from_str::<Value>(&s).ok()).and_then(|v| serde_json::from_value(v["outs"].clone()).ok()).unwrap_or_default();
            let _ = std::fs::remove_file(&pout);
            for (v, o) in sample.iter().zip(outs.iter()) {
                if let Err(m) = judge(v, o) {
                    ctx.violation("values", v, &format!("{} [Miri]", m));
                    return;
                }
            }
            ctx.add_class("values:miri", outs.len() as u64);
            ctx.note("miri", json!(format!("{} values interpreted without undefined behaviour", outs.len())));
        }
        Ok(o) => {
            let err = String::from_utf8_lossy(&o.stderr).to_string();
            let _ = std::fs::remove_file(&pout);
            if err.contains("Undefined Behavior") {
                let headline = err.lines().find(|l| l.contains("Undefined Behavior")).unwrap_or("").to_string();
                // isolate: Miri stops at the first UB, so the culprit is the first value whose type uses unsafe code; report the smallest vector value
                let culprit = sample.iter().filter(|v| matches!(v, SigVal::VecU16(_) | SigVal::VecU32(_)) && v.len() > 0).min_by_key(|v| v.len()).cloned().unwrap_or(SigVal::VecU16(vec![1]));
                ctx.violation("values", &culprit, &format!("Miri reports undefined behaviour while obtaining byte identities: {}", headline.trim()));
            } else if ctx.tier == Tier::Thorough {
                ctx.infra(format!("miri run failed: {}", err.lines().last().unwrap_or("")));
            } else {
                // quick tier: Miri is an extra engine; its unavailability is recorded, not fatal
                ctx.note("miri", json!(format!("unavailable in this run: {}", err.lines().last().unwrap_or(""))));
            }
        }
        Err(e) => {
            if ctx.tier == Tier::Thorough {
                ctx.infra(format!("cannot start cargo miri: {}", e))
            } else {
                ctx.note("miri", json!(format!("unavailable in this run: {}", e)));
            }
        }
    }
}

pub fn replay(ctx: &Ctx, sub: &str, case: &Value) -> Result<(), String> {
    let v: SigVal = parse_case(case)?;
    if !asan_exe().exists() {
        return Err(format!("{} missing", asan_exe().display()));
    }
    for e in [Engine::Plain, Engine::Asan] {
        if !run_batch(ctx, e, std::slice::from_ref(&v), sub) {
            return Ok(());
        }
    }
    if !v.is_big() {
        miri(ctx, std::slice::from_ref(&v), 8);
    }
    Ok(())
}

/// in-process evaluation (used by the fuzz target, which is itself built with AddressSanitizer)
pub fn eval_inprocess(v: &SigVal) -> Eval {
    let o = probe(v, v.len() <= 64);
    judge(v, &o).map_err(Fail::new)?;
    Ok(Report::new(v.len() > 0))
}
