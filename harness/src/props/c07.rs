//! C07 - SetSketch register collisions follow the model; Jaccard bounds hold
use crate::dist::*;
use crate::fw::*;
use crate::oracle::setsketch_coll::collision_probability;
use crate::sk::SsParams;
use crate::stat::Acc;
use crate::util::*;
use fnv::FnvHasher;
use num::{Bounded, FromPrimitive, Integer, ToPrimitive};
use probminhash::jaccard;
use probminhash::setsketcher::{SetSketchParams, SetSketcher};
use proptest::prelude::*;
use serde::{Deserialize, Serialize};
use serde_json::Value;

// ---------------------------------------------------------------------------------------------
// (a) pure function: get_jaccard_bounds

#[derive(Clone, Debug, Serialize, Deserialize)]
pub struct BoundsCase {
    pub b: F,
    pub p: F,
}

fn bounds_strategy() -> impl Strategy<Value = BoundsCase> {
    let b = prop_oneof![
        3 => (-10.0f64..0.0).prop_map(|e| 1.0 + 10f64.powf(e)),
        2 => prop::sample::select(vec![1.001f64, 1.0001, 1.01, 1.1, 1.5, 2.0, 1.0001468, 1.0 + 1e-10]),
        2 => (1.0f64..2.0).prop_map(|x| x.max(1.0 + 1e-10)),
    ];
    let p = prop_oneof![
        3 => 0.0f64..=1.0,
        1 => prop::sample::select(vec![0.0f64, 1.0, 0.5, 0.9999, 1.0 - 1e-12, 1e-12, 1.0 - f64::EPSILON]),
        1 => (1u32..5000, 1u32..5000).prop_map(|(k, m)| (k.min(m) as f64) / (m.max(k) as f64)),
        1 => (0.0f64..1e-6).prop_map(|d| 1.0 - d),
    ];
    (b, p).prop_map(|(b, p)| BoundsCase { b: F(b), p: F(p) })
}

pub fn eval_bounds(c: &BoundsCase) -> Eval {
    let (b, p) = (c.b.0, c.p.0);
    ensure!(b > 1.0 && b <= 2.0 && (0.0..=1.0).contains(&p), "generator error");
    let prm = SetSketchParams::new(b, 128, 20.0, 1000);
    let (lo, hi) = match catch(|| prm.get_jaccard_bounds(p)) {
        Ok(r) => r,
        Err(pn) => return Err(Fail::new(format!("get_jaccard_bounds({:e}) with b = {:e} aborted: {}", p, b, pn))),
    };
    ensure!(lo.is_finite() && hi.is_finite(), "get_jaccard_bounds({:e}) with b = {:e} returned non finite bounds ({:e}, {:e})", p, b, lo, hi);
    let slack = 64.0 * f64::EPSILON / (b - 1.0);
    ensure!(lo <= hi + slack, "get_jaccard_bounds({:e}) with b = {:e}: lower end {:e} exceeds upper end {:e} by more than rounding ({:e})", p, b, lo, hi, slack);
    // the interval is built from p: upper = (b^p - 1)/(b-1), lower = max(0, 2 (b^((p+1)/2) - 1)/(b-1) - 1), both increasing in p, in [0,1] up to rounding
    ensure!(lo >= 0.0 && hi <= 1.0 + slack.max(1e-12), "bounds ({:e}, {:e}) for p = {:e}, b = {:e} leave [0,1]", lo, hi, p, b);
    Ok(Report::new(p > 0.0 && p < 1.0).class_if(b - 1.0 < 1e-3, "b-1<1e-3").class_if(b - 1.0 < 1e-6, "b-1<1e-6").class_if(p > 0.999, "p>0.999").class_if(p == 0.0 || p == 1.0, "p-at-edge"))
}

// ---------------------------------------------------------------------------------------------
// (b) collision model and containment of the true Jaccard index

#[derive(Clone, Debug, Serialize, Deserialize)]
pub struct CollCase {
    pub wide: bool,
    pub m: usize,
    pub ss: SsParams,
    pub only_a: u64,
    pub only_b: u64,
    pub both: u64,
    pub trials: u64,
    pub seed: u64,
}

fn size(max: u64) -> impl Strategy<Value = u64> {
    prop_oneof![1 => Just(0u64), 1 => Just(1u64), 3 => 1u64..50, 4 => (0.0f64..(max as f64).ln()).prop_map(|l| l.exp() as u64)]
}

fn coll_strategy(max_m: usize, max_n: u64, work: u64) -> impl Strategy<Value = CollCase> {
    let b = prop_oneof![3 => prop::sample::select(vec![1.001f64, 1.01, 1.1, 1.5, 2.0]), 2 => (-4.0f64..0.0).prop_map(|e| 1.0 + 10f64.powf(e))];
    (any::<bool>(), prop_oneof![4 => 1usize..6, 12 => crate::gen::m_strategy(1, max_m), 2 => prop::sample::select(vec![65_535usize, 65_537, 66_000, 68_000, 70_000, 80_000])], b, size(max_n), size(max_n), size(max_n), 0u8..8, any::<u64>()).prop_map(move |(wide, m, b, only_a, only_b, both, clip, seed)| {
        // sketches of more than 2^16 registers (one case in nine): small sets only (an insertion costs O(m)), a base of at least 1.01 so
        // that the documented q fits 16-bit registers, and 16-bit registers in three cases out of four
        let (only_a, only_b, both) = if m > 60_000 { (only_a % 12, only_b % 12, both % 12) } else { (only_a, only_b, both) };
        let b = if m > 60_000 && b < 1.01 { [1.01, 1.1, 1.5, 2.0][(seed >> 40) as usize % 4] } else { b };
        let wide = if m > 60_000 { (seed >> 44) % 4 == 0 } else { wide };
        let both = if only_a + both == 0 && only_b + both == 0 { 1 } else { both };
        let n = (only_a + only_b + both) as f64;
        let mut ss = SsParams::documented(b, m, n.max(10.0), 1.0e-6);
        // one case in eight uses a small q so that the clipping part of the model is exercised as well
        if clip == 0 {
            ss.q = (ss.q / 3).max(2);
        }
        // one case in eight: the upper register limit q + 1 sits inside the spread of the register values (typical value 1 + log_b(a n),
        // spread a few units of 1/ln b), so that a part of the registers is clipped at q + 1, a part sits at q and a part below
        if clip == 2 {
            let delta = ((seed >> 16) % 5000) as f64 / 1000.0 - 2.5;
            let na = (only_a + both).max(only_b + both).max(1) as f64;
            let top = 1.0 + ((ss.a.0 * na).ln() + delta) / b.ln();
            if top >= 1.0 && top < 4.0e9 {
                ss.q = top.floor() as u64;
            }
        }
        // one case in sixteen: base extremely close to 1 with a large rate and the full u32 register range
        // (register values of order 1e9: the upper half of the u32 range is reachable only here)
        let extreme = clip == 1;
        if extreme {
            // choose the rate, then the base so that typical register values ln(a n)/(b-1) land between 1e9 and 5e9:
            // around and above 2^31 and up to the u32 limit (clipping at q+1 = 2^32-1 included)
            let aa = 10f64.powf(3.0 + ((seed >> 24) % 5000) as f64 / 1000.0);
            let target = 1.0e9 + ((seed >> 8) % 4000) as f64 * 1.0e6;
            let bb = 1.0 + ((aa * n.max(2.0)).ln() / target).max(1.0e-10);
            ss = SsParams { b: F(bb), a: F(aa), q: u32::MAX as u64 - 1 };
        }
        let wide = wide || extreme || ss.q + 1 > 65534;
        // trials from a work budget (item insertions), never from the clock
        let per_trial = (only_a + only_b + 2 * both).max(1) * (1 + (m as u64) / 64);
        let trials = (work / per_trial).clamp(400, 20_000);
        CollCase { wide, m, ss, only_a, only_b, both, trials, seed }
    })
}

fn sample<I>(c: &CollCase, seed: u64, trials: u64) -> Acc
where
    I: Integer + ToPrimitive + FromPrimitive + Bounded + Copy + Clone + std::fmt::Debug,
{
    let p = c.ss.to_params(c.m);
    let mut rng = SmRng::new(seed);
    let mut acc = Acc::default();
    let mut sa = SetSketcher::<I, u64, FnvHasher>::new(p, Default::default());
    let mut sb = SetSketcher::<I, u64, FnvHasher>::new(p, Default::default());
    for _ in 0..trials {
        sa.reinit();
        sb.reinit();
        // fresh random labels: three disjoint streams derived from a per-trial base
        let base = rng.next_u64();
        let lab = |k: u64, i: u64| splitmix64(base ^ (k << 62) ^ i.wrapping_mul(0x9E3779B97F4A7C15));
        for i in 0..c.only_a {
            sa.sketch(&lab(1, i)).unwrap();
        }
        for i in 0..c.only_b {
            sb.sketch(&lab(2, i)).unwrap();
        }
        for i in 0..c.both {
            let x = lab(3, i);
            sa.sketch(&x).unwrap();
            sb.sketch(&x).unwrap();
        }
        let est = jaccard::get_jaccard_index_estimate(sa.get_signature(), sb.get_signature()).unwrap();
        acc.push(est);
    }
    acc
}

pub fn eval_coll(c: &CollCase) -> Eval {
    let imax: u64 = if c.wide { u32::MAX as u64 } else { u16::MAX as u64 };
    let kmax = (c.ss.q + 1).min(imax);
    let p = collision_probability(c.ss.b.0, c.ss.a.0, kmax, c.only_a, c.only_b, c.both);
    let what = format!("SetSketch b={:e} m={} a={:.4} q={} |A\\B|={} |B\\A|={} |A&B|={}", c.ss.b.0, c.m, c.ss.a.0, c.ss.q, c.only_a, c.only_b, c.both);
    let f = |seed: u64, t: u64| if c.wide { sample::<u32>(c, seed, t) } else { sample::<u16>(c, seed, t) };
    // positions are independent in SetSketch1: Var(fraction) = p(1-p)/m under the model (5% margin for oracle rounding)
    let var_h = 1.05 * p * (1.0 - p) / c.m as f64 + 1e-12;
    let t = decide_mean(&format!("{}: fraction of equal registers", what), p, Some(var_h), c.trials, c.seed, &f)?;
    // containment of the true Jaccard index by the bounds computed from the exact collision probability,
    // only when a and q follow the documentation (clipping probability < 1e-6)
    let documented = c.ss == SsParams::documented(c.ss.b.0, c.m, ((c.only_a + c.only_b + c.both) as f64).max(10.0), 1.0e-6);
    let j = c.both as f64 / (c.only_a + c.only_b + c.both) as f64;
    if documented && c.only_a + c.both > 0 && c.only_b + c.both > 0 {
        let prm = c.ss.to_params(c.m);
        let (lo, hi) = match catch(|| prm.get_jaccard_bounds(p)) {
            Ok(r) => r,
            Err(pn) => return Err(Fail::new(format!("{}: get_jaccard_bounds({:e}) aborted: {}", what, p, pn))),
        };
        ensure!(lo - 1e-4 <= j && j <= hi + 1e-4, "{}: bounds ({:.6}, {:.6}) computed from the exact collision probability {:.6} do not contain the true Jaccard index {:.6}", what, lo, hi, p, j);
    }
    Ok(Report::new(p > 0.0 && p < 1.0 && c.only_a + c.both > 0 && c.only_b + c.both > 0)
        .trials(c.trials)
        .resolution(t.tol)
        .class_if(!documented && c.ss.b.0 - 1.0 > 1e-6, "small-q-clipping-exercised")
        .class_if(c.ss.b.0 - 1.0 < 1e-6, "b-1<1e-6-large-rate-u32-range")
        .class_if({
            let na = (c.only_a + c.both).max(c.only_b + c.both).max(1) as f64;
            let top = 1.0 + (c.ss.a.0 * na).ln() / c.ss.b.0.ln();
            ((kmax as f64 - top) * c.ss.b.0.ln()).abs() < 3.0
        }, "upper-limit-within-the-register-spread")
        .class_if(c.m > 65_535, "m>65535")
        .class_if(c.both == 0, "disjoint")
        .class_if(c.only_a == 0 || c.only_b == 0, "nested-or-equal")
        .class_if(c.only_a + c.both == 0 || c.only_b + c.both == 0, "one-side-empty")
        .class_if((c.only_a + c.both).max(c.only_b + c.both) >= 100 * (c.only_a + c.both).min(c.only_b + c.both).max(1), "sizes-ratio>=100")
        .class(if c.wide { "u32" } else { "u16" }))
}

pub fn run(ctx: &Ctx) {
    ctx.set_rule("(a) bounds function: proptest generates (b in (1,2] with b-1 log-uniform down to 1e-10, collision fraction p in [0,1] incl. 0, 1, k/m fractions and values within 1e-12 of 1); get_jaccard_bounds must return (no abort), finite, lower <= upper + 64 eps/(b-1), inside [0,1]. \
        (b) collision model: proptest generates (register type, m, b, a and q as documented for eps = 1e-6 -- one case in eight with q/3 to exercise clipping --, three cardinalities from strata 0 / 1 / small / log-uniform, trial seed); per trial fresh random labels, two sketchers, statistic = fraction of equal registers; \
        oracle = exact collision probability of the register model (sum over buckets (b^-k, b^(1-k)] with clamps at 0 and min(q+1, max of register type)); decision = Bernstein with variance p(1-p)/m (positions independent), delta 1e-14 per comparison, confirmation on an independent seed with 4x trials; \
        with documented parameters get_jaccard_bounds(p_exact) must contain the true Jaccard index up to 1e-4. Non-trivial = 0 < p < 1 (a: also 0 < p < 1).");
    super::run_fixed_tier(ctx, replay);
    let cases = ctx.tier.pick(400_000, 10_000_000);
    ctx.drive("bounds", cases, 16, 3000, bounds_strategy, eval_bounds);
    let (cases, max_m, max_n, work) = ctx.tier.pick((64, 256, 10_000, 6_000_000), (1200, 1024, 300_000, 30_000_000));
    ctx.drive("collision", cases, 16, 20, || coll_strategy(max_m, max_n, work), eval_coll);
}

pub fn replay(ctx: &Ctx, sub: &str, case: &Value) -> Result<(), String> {
    if sub == "bounds" {
        let c: BoundsCase = parse_case(case)?;
        ctx.run_fixed(sub, &c, eval_bounds);
    } else {
        let c: CollCase = parse_case(case)?;
        ctx.run_fixed(sub, &c, eval_coll);
    }
    Ok(())
}
