use crate::fw::*;
use serde_json::Value;

pub mod c02;
pub mod c04;
pub mod c05;
pub mod c09;
pub mod c13;
pub mod c15;
pub mod c19;

macro_rules! table {
    ($($id:literal => $m:ident),* $(,)?) => {
        pub fn run(ctx: &Ctx) -> bool {
            match ctx.id.as_str() {
                $($id => { $m::run(ctx); true })*
                _ => false,
            }
        }
        pub fn replay(ctx: &Ctx, sub: &str, case: &Value) -> Result<(), String> {
            match ctx.id.as_str() {
                $($id => $m::replay(ctx, sub, case),)*
                _ => Err(format!("unknown property {}", ctx.id)),
            }
        }
    };
}

table! {
    "C02" => c02,
    "C04" => c04,
    "C05" => c05,
    "C09" => c09,
    "C13" => c13,
    "C15" => c15,
    "C19" => c19,
}

/// run the replay tier (committed regression cases + stored replays) of a property
pub fn run_fixed_tier(ctx: &Ctx, replay: impl Fn(&Ctx, &str, &Value) -> Result<(), String>) {
    for (path, sub, case) in fixed_cases(&ctx.id) {
        if let Err(e) = replay(ctx, &sub, &case) {
            ctx.infra(format!("cannot replay {}: {}", path.display(), e));
        }
    }
}

/// per-property framework settings
pub fn configure(ctx: &mut Ctx) {
    if ctx.id == "C09" {
        ctx.hang_limit = std::time::Duration::from_secs(20);
        ctx.hang_is_violation = true;
    }
}
