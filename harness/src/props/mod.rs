use crate::fw::*;
use serde_json::Value;

pub mod c01;
pub mod c02;
pub mod c03;
pub mod c04;
pub mod c05;
pub mod c06;
pub mod c07;
pub mod c08;
pub mod c09;
pub mod c10;
pub mod c11;
pub mod c12;
pub mod c13;
pub mod c14;
pub mod c15;
pub mod c16;
pub mod c17;
pub mod c18;
pub mod c19;
pub mod c20;

macro_rules! table {
    ($($id:literal => $m:ident),* $(,)?) => {
        pub fn run(ctx: &Ctx) -> bool {
            match ctx.id.as_str() {
                $($id => { $m::run(ctx); true })*
                _ => false,
            }
        }
        pub fn replay(ctx: &Ctx, sub: &str, case: &Value) -> Result<(), String> {
            match ctx.id.as_str() {
                $($id => $m::replay(ctx, sub, case),)*
                _ => Err(format!("unknown property {}", ctx.id)),
            }
        }
    };
}

table! {
    "C01" => c01,
    "C02" => c02,
    "C03" => c03,
    "C04" => c04,
    "C05" => c05,
    "C06" => c06,
    "C07" => c07,
    "C08" => c08,
    "C09" => c09,
    "C10" => c10,
    "C11" => c11,
    "C12" => c12,
    "C13" => c13,
    "C14" => c14,
    "C15" => c15,
    "C16" => c16,
    "C17" => c17,
    "C18" => c18,
    "C19" => c19,
    "C20" => c20,
}

/// run the replay tier (committed regression cases + stored replays) of a property
pub fn run_fixed_tier(ctx: &Ctx, replay: impl Fn(&Ctx, &str, &Value) -> Result<(), String>) {
    for (path, sub, case) in fixed_cases(&ctx.id) {
        if let Err(e) = replay(ctx, &sub, &case) {
            ctx.infra(format!("cannot replay {}: {}", path.display(), e));
        }
    }
}

/// per-property framework settings
pub fn configure(ctx: &mut Ctx) {
    if ctx.id == "C09" {
        ctx.hang_limit = std::time::Duration::from_secs(45);
        ctx.hang_is_violation = true;
    }
}

/// draw n values from a strategy with a runner seeded from (VERIF_SEED, property, sub) - for sub-checks that evaluate
/// their cases outside proptest's own loop (child-process batches)
pub fn sample_cases<S: proptest::strategy::Strategy>(ctx: &Ctx, sub: &str, strat: &S, n: usize) -> Vec<S::Value> {
    use proptest::strategy::ValueTree;
    use proptest::test_runner::{Config, RngAlgorithm, TestRng, TestRunner};
    let seed = crate::util::mix(&[ctx.seed, crate::util::hash_str(&ctx.id), crate::util::hash_str(sub), 0x5A]);
    let mut sb = [0u8; 32];
    for i in 0..4 {
        sb[i * 8..i * 8 + 8].copy_from_slice(&crate::util::splitmix64(seed.wrapping_add(i as u64)).to_le_bytes());
    }
    let mut runner = TestRunner::new_with_rng(Config::default(), TestRng::from_seed(RngAlgorithm::ChaCha, &sb));
    (0..n).filter_map(|_| strat.new_tree(&mut runner).ok().map(|t| t.current())).collect()
}

