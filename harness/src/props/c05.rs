//! C05 - sketch of a union is the position-wise join; SetSketch merge is exact (model-based histories)
use crate::fw::*;
use crate::gen::*;
use crate::sk::*;
use crate::util::*;
use fnv::FnvHasher;
use num::{Bounded, FromPrimitive, Integer, ToPrimitive};
use probminhash::setsketcher::{SetSketchParams, SetSketcher};
use proptest::prelude::*;
use serde::{Deserialize, Serialize};
use serde_json::Value;
use std::collections::BTreeSet;

#[derive(Clone, Debug, Serialize, Deserialize)]
pub enum Op {
    /// sketcher selector, indices into the pool, presented as one slice (true) or item-wise
    Sketch(u8, Vec<u16>, bool),
    /// dst <- src
    Merge(u8, u8),
    /// merge into dst from a fresh sketcher whose parameter `which` (0:m+1, 1:m-1, 2:q+1, 3:q-1, 4:a*(1+d), 5:b*(1+d), 6: a*(1-d)) differs; d = 2^-shift
    Mismatch(u8, u8, u8),
}

#[derive(Clone, Debug, Serialize, Deserialize)]
pub struct Case {
    pub wide: bool,
    pub m: usize,
    pub ss: SsParams,
    pub nsk: usize,
    pub pool: Vec<u64>,
    pub ops: Vec<Op>,
}

fn op_strategy(pool_len: usize) -> impl Strategy<Value = Op> {
    let big = (pool_len / 2).max(2);
    prop_oneof![
        4 => (any::<u8>(), prop::collection::vec(any::<u16>(), 0..6), any::<bool>()).prop_map(|(i, v, s)| Op::Sketch(i, v, s)),
        3 => (any::<u8>(), prop::collection::vec(any::<u16>(), big..=pool_len.max(big)), any::<bool>()).prop_map(|(i, v, s)| Op::Sketch(i, v, s)),
        4 => (any::<u8>(), any::<u8>()).prop_map(|(a, b)| Op::Merge(a, b)),
        1 => (any::<u8>(), 0u8..7, 1u8..40).prop_map(|(a, w, s)| Op::Mismatch(a, w, s)),
    ]
}

fn strategy(max_m: usize, max_pool: usize) -> impl Strategy<Value = Case> {
    (any::<bool>(), prop_oneof![3 => 1usize..=12, 1 => crate::gen::m_strategy(1, max_m)], 2usize..=4).prop_flat_map(move |(wide, m, nsk)| {
        let want = ((m as f64) * ((m as f64).ln() + 4.0) * 2.5) as usize;
        (ss_params(m), item_set(want.clamp(4, max_pool) / 2 + 1, want.clamp(4, max_pool))).prop_flat_map(move |(ss, pool)| {
            let pl = pool.len();
            prop::collection::vec(op_strategy(pl), 1..14).prop_map(move |ops| Case { wide, m, ss, nsk, pool: pool.clone(), ops })
        })
    })
}

trait Reg: Integer + ToPrimitive + FromPrimitive + Bounded + Copy + Clone + std::fmt::Debug {}
impl Reg for u16 {}
impl Reg for u32 {}

type Sks<I> = SetSketcher<I, u64, FnvHasher>;

fn regs<I: Reg>(s: &Sks<I>) -> Vec<u64> {
    s.get_signature().iter().map(|x| x.to_u64().unwrap()).collect()
}

fn fresh<I: Reg>(p: SetSketchParams, items: impl Iterator<Item = u64>) -> Sks<I> {
    let mut s = Sks::<I>::new(p, Default::default());
    for x in items {
        s.sketch(&x).unwrap();
    }
    s
}

fn check_low<I: Reg>(s: &Sks<I>, what: &str) -> Result<(), Fail> {
    let min = regs(s).into_iter().min().unwrap_or(0) as i64;
    ensure!(s.get_low_sketch() <= min, "{}: get_low_sketch() = {} exceeds the smallest register {}", what, s.get_low_sketch(), min);
    Ok(())
}

fn eval_typed<I: Reg>(c: &Case) -> Eval {
    let p = c.ss.to_params(c.m);
    let m = c.m;
    let imax = I::max_value().to_u64().unwrap();
    // single item sketches (the independent composition oracle)
    let singles: Vec<Vec<u64>> = c.pool.iter().map(|x| regs(&fresh::<I>(p, std::iter::once(*x)))).collect();
    let mut sk: Vec<Sks<I>> = (0..c.nsk).map(|_| Sks::<I>::new(p, Default::default())).collect();
    let mut model: Vec<BTreeSet<usize>> = vec![BTreeSet::new(); c.nsk];
    let mut stale_scenario = false;
    let mut merged_low: Vec<bool> = vec![false; c.nsk];
    let mut n_merge = 0;
    let mut n_mismatch = 0;
    let mut merge_nonempty = false;
    let verify = |sk: &Sks<I>, model: &BTreeSet<usize>, what: &str| -> Result<(), Fail> {
        let got = regs(sk);
        // (1) equals a fresh sketcher fed the model set once
        let f = fresh::<I>(p, model.iter().map(|i| c.pool[*i]));
        let want = regs(&f);
        for k in 0..m {
            ensure!(got[k] == want[k], "{}: register {} is {} but the sketch of the set of {} items streamed/merged so far has {}", what, k, got[k], model.len(), want[k]);
        }
        // (2) equals the position-wise maximum of the single item sketches
        for k in 0..m {
            let mx = model.iter().map(|i| singles[*i][k]).max().unwrap_or(0);
            ensure!(got[k] == mx, "{}: register {} is {} but the position-wise maximum of the single-item sketches is {}", what, k, got[k], mx);
        }
        // (3) estimate agrees with the fresh sketcher (same registers => same estimate)
        let (e1, _) = sk.get_cardinal_stats();
        let (e2, _) = f.get_cardinal_stats();
        ensure!(e1.to_bits() == e2.to_bits(), "{}: cardinality estimate {:e} differs from that of the sketch of the same set {:e}", what, e1, e2);
        check_low(sk, what)
    };
    for (step, op) in c.ops.iter().enumerate() {
        match op {
            Op::Sketch(i, idxs, as_slice) => {
                let i = (*i as usize) % c.nsk;
                let items: Vec<usize> = idxs.iter().map(|x| idx16(*x, c.pool.len())).collect();
                if merged_low[i] && !items.is_empty() {
                    stale_scenario = true;
                }
                let vals: Vec<u64> = items.iter().map(|j| c.pool[*j]).collect();
                if *as_slice && !vals.is_empty() {
                    ensure!(sk[i].sketch_slice(&vals).is_ok(), "sketch_slice failed");
                } else {
                    for v in &vals {
                        sk[i].sketch(v).unwrap();
                    }
                }
                model[i].extend(items);
                verify(&sk[i], &model[i], &format!("step {} (sketch into #{})", step, i))?;
            }
            Op::Merge(d, s) => {
                let d = (*d as usize) % c.nsk;
                let s = (*s as usize) % c.nsk;
                n_merge += 1;
                if d == s {
                    // idempotence needs a second sketcher holding the same set
                    let other = fresh::<I>(p, model[d].iter().map(|i| c.pool[*i]));
                    ensure!(sk[d].merge(&other).is_ok(), "step {}: merge with a same-parameter sketcher was refused", step);
                } else {
                    let (a, b) = if d < s {
                        let (x, y) = sk.split_at_mut(s);
                        (&mut x[d], &y[0])
                    } else {
                        let (x, y) = sk.split_at_mut(d);
                        (&mut y[0], &x[s])
                    };
                    ensure!(a.merge(b).is_ok(), "step {}: merge with a same-parameter sketcher was refused", step);
                    let add: Vec<usize> = model[s].iter().cloned().collect();
                    if !add.is_empty() && !model[d].is_empty() {
                        merge_nonempty = true;
                    }
                    model[d].extend(add);
                }
                if sk[d].get_low_sketch() > 0 || sk[s].get_low_sketch() > 0 {
                    merged_low[d] = true;
                }
                verify(&sk[d], &model[d], &format!("step {} (merge #{} <- #{})", step, d, s))?;
                verify(&sk[s], &model[s], &format!("step {} (merge source #{})", step, s))?;
            }
            Op::Mismatch(d, which, shift) => {
                let d = (*d as usize) % c.nsk;
                let delta = 2f64.powi(-(*shift as i32));
                let (b, a, q, mm) = (c.ss.b.0, c.ss.a.0, c.ss.q, m as u64);
                let p2 = match which {
                    0 => SetSketchParams::new(b, mm + 1, a, q),
                    1 => SetSketchParams::new(b, mm.saturating_sub(1).max(1), a, q),
                    2 => SetSketchParams::new(b, mm, a, q + 1),
                    3 => SetSketchParams::new(b, mm, a, q.saturating_sub(1)),
                    4 => SetSketchParams::new(b, mm, a * (1.0 + delta), q),
                    5 => SetSketchParams::new(b * (1.0 + delta), mm, a, q),
                    _ => SetSketchParams::new(b, mm, a * (1.0 - delta), q),
                };
                let differs = p2.get_m() != mm || p2.get_q() != q || p2.get_a() != a || p2.get_b() != b;
                if !differs {
                    continue;
                }
                n_mismatch += 1;
                // the foreign sketcher holds every pool item so that a wrongly accepted merge would be visible
                let other = fresh::<I>(p2, c.pool.iter().cloned());
                let before = (regs(&sk[d]), sk[d].get_low_sketch(), sk[d].get_nb_overflow(), sk[d].get_cardinal_stats().0.to_bits());
                let r = sk[d].merge(&other);
                ensure!(r.is_err(), "step {}: merge from a sketcher with different parameters (variant {} delta 2^-{}: b={:e} m={} a={:e} q={}) was accepted", step, which, shift, p2.get_b(), p2.get_m(), p2.get_a(), p2.get_q());
                let after = (regs(&sk[d]), sk[d].get_low_sketch(), sk[d].get_nb_overflow(), sk[d].get_cardinal_stats().0.to_bits());
                ensure!(before == after, "step {}: refused merge changed the receiver", step);
            }
        }
    }
    // algebraic laws on rebuilt sketchers
    if c.nsk >= 2 {
        let set = |i: usize| model[i].iter().map(|j| c.pool[*j]).collect::<Vec<u64>>();
        let (sa, sb, sc) = (set(0), set(1), set(c.nsk - 1));
        let mut ab = fresh::<I>(p, sa.iter().cloned());
        ensure!(ab.merge(&fresh::<I>(p, sb.iter().cloned())).is_ok(), "merge refused");
        let mut ba = fresh::<I>(p, sb.iter().cloned());
        ensure!(ba.merge(&fresh::<I>(p, sa.iter().cloned())).is_ok(), "merge refused");
        ensure!(regs(&ab) == regs(&ba), "merge is not commutative");
        let mut ab_c = fresh::<I>(p, sa.iter().cloned());
        ab_c.merge(&fresh::<I>(p, sb.iter().cloned())).unwrap();
        ab_c.merge(&fresh::<I>(p, sc.iter().cloned())).unwrap();
        let mut bc = fresh::<I>(p, sb.iter().cloned());
        bc.merge(&fresh::<I>(p, sc.iter().cloned())).unwrap();
        let mut a_bc = fresh::<I>(p, sa.iter().cloned());
        a_bc.merge(&bc).unwrap();
        ensure!(regs(&ab_c) == regs(&a_bc), "merge is not associative");
        let before = regs(&ab);
        let twin = fresh::<I>(p, sa.iter().chain(sb.iter()).cloned());
        ab.merge(&twin).unwrap();
        ensure!(regs(&ab) == before, "merge is not idempotent");
        check_low(&ab, "after algebraic merges")?;
    }
    let clipped_top = sk.iter().any(|s| regs(s).iter().any(|r| *r >= (c.ss.q + 1).min(imax)));
    Ok(Report::new(n_merge > 0 && merge_nonempty)
        .class(if c.wide { "u32" } else { "u16" })
        .class_if(stale_scenario, "sketch-after-merge-with-active-lower-bound")
        .class_if(n_mismatch > 0, "parameter-mismatch-merge")
        .class_if(clipped_top, "register-at-upper-limit")
        .class_if(sk.iter().any(|s| s.get_nb_overflow() > 0), "register-overflow")
        .class_if(model.iter().any(|s| s.is_empty()), "empty-sketcher-involved"))
}

pub fn eval(c: &Case) -> Eval {
    if c.wide {
        eval_typed::<u32>(c)
    } else {
        eval_typed::<u16>(c)
    }
}

// ---------------------------------------------------------------------------------------------------------------
// SuperMinHash: sketch of a set == position-wise minimum of the sketches of its single items

#[derive(Clone, Debug, Serialize, Deserialize)]
pub struct MinCase {
    pub kind: Kind,
    pub m: usize,
    pub items: Vec<u64>,
    pub pres: Presentation,
}

fn min_strategy(max_m: usize, max_n: usize) -> impl Strategy<Value = MinCase> {
    (prop::sample::select(vec![Kind::SmhF64, Kind::SmhF32, Kind::SmhF64NoHash]), crate::gen::m_strategy(1, max_m)).prop_flat_map(move |(kind, m)| {
        item_set(1, max_n).prop_flat_map(move |items| {
            let n = items.len();
            presentation(n).prop_map(move |pres| MinCase { kind, m, items: items.clone(), pres })
        })
    })
}

pub fn eval_min(c: &MinCase) -> Eval {
    let dummy = SsParams { b: F(1.001), a: F(20.0), q: 100 };
    let mut s = make(c.kind, c.m, &dummy);
    for (as_slice, chunk) in c.pres.chunks(&c.items) {
        if as_slice && !chunk.is_empty() {
            ensure!(s.slice(&chunk), "sketch_slice refused");
        } else {
            for x in &chunk {
                s.sketch(*x);
            }
        }
    }
    let got = s.views().get("float").unwrap().clone();
    let as_f = |b: u64| if c.kind.is_f32() { f32::from_bits(b as u32) as f64 } else { f64::from_bits(b) };
    let mut want = vec![f64::INFINITY; c.m];
    let mut int_valued = false;
    let mut one = make(c.kind, c.m, &dummy);
    for x in &c.items {
        one.reinit();
        one.sketch(*x);
        let v = one.views();
        for (k, b) in v.get("float").unwrap().iter().enumerate() {
            let f = as_f(*b);
            if f.fract() == 0.0 {
                int_valued = true;
            }
            if f < want[k] {
                want[k] = f;
            }
        }
    }
    for k in 0..c.m {
        ensure!(as_f(got[k]) == want[k], "{:?} m={} n={}: position {} holds {:e} but the minimum over the single-item sketches is {:e}", c.kind, c.m, c.items.len(), k, as_f(got[k]), want[k]);
    }
    Ok(Report::new(c.items.len() >= 2).class(format!("{:?}", c.kind)).class_if(c.items.len() >= c.m, "n>=m").class_if(c.items.len() >= 8 * c.m, "n>=8m").class_if(c.kind.is_f32() && int_valued, "f32-register-rounded-up-to-an-integer"))
}

/// targeted generator for the f32 round-up region: r + j rounds up to j + 1 with probability ~ j 2^-24 per draw. A window of
/// labels is scanned (public API: single-item sketches) for items holding such an integer-valued register, and each is
/// combined with other items of the window in both orders; the result must be the position-wise minimum.
#[derive(Clone, Debug, Serialize, Deserialize)]
pub struct RoundCase {
    pub m: usize,
    pub base: u64,
    pub window: u32,
    pub partners: u16,
}

pub fn eval_round(c: &RoundCase) -> Eval {
    let dummy = SsParams { b: F(1.001), a: F(20.0), q: 100 };
    let kind = Kind::SmhF32;
    let mut one = make(kind, c.m, &dummy);
    let single = |one: &mut Box<dyn Sk>, x: u64| -> Vec<f32> {
        one.reinit();
        one.sketch(x);
        one.views().get("float").unwrap().iter().map(|b| f32::from_bits(*b as u32)).collect()
    };
    let mut special: Vec<u64> = vec![];
    for i in 0..c.window as u64 {
        let x = c.base.wrapping_add(i);
        if single(&mut one, x).iter().any(|v| v.fract() == 0.0 && *v > 0.0) {
            special.push(x);
        }
    }
    let mut two = make(kind, c.m, &dummy);
    let mut checked = 0usize;
    for x in special.iter().take(6) {
        let sx = single(&mut one, *x);
        for k in 0..c.partners as u64 {
            let y = c.base.wrapping_add(splitmix64(k ^ *x) % c.window as u64);
            if y == *x {
                continue;
            }
            let sy = single(&mut one, y);
            let want: Vec<f32> = sx.iter().zip(sy.iter()).map(|(a, b)| a.min(*b)).collect();
            // both orders, and streams in which the special item is repeated (before, around and after its partner)
            let streams: [&[u64]; 5] = [&[*x, y], &[y, *x], &[*x, *x, y], &[*x, y, *x, y], &[y, *x, *x, *x]];
            for order in streams {
                two.reinit();
                for v in order {
                    two.sketch(*v);
                }
                let got: Vec<f32> = two.views().get("float").unwrap().iter().map(|b| f32::from_bits(*b as u32)).collect();
                ensure!(got == want, "SuperMinHash<f32> m={}: item {} has a register rounded up to an integer ({:?}); sketching {:?} gives {:?} but the position-wise minimum of the two single-item sketches is {:?}", c.m, x, sx, order, got, want);
            }
            checked += 1;
        }
        // a longer stream: x twice, then up to 40 other items of the window (greedy histories behind a repeated round-up)
        let others: Vec<u64> = (0..40u64).map(|k| c.base.wrapping_add(splitmix64(k ^ !*x) % c.window as u64)).filter(|y| y != x).collect();
        let mut want = sx.clone();
        for y in &others {
            for (w, v) in want.iter_mut().zip(single(&mut one, *y).iter()) {
                *w = w.min(*v);
            }
        }
        two.reinit();
        two.sketch(*x);
        two.sketch(*x);
        for y in &others {
            two.sketch(*y);
        }
        let got: Vec<f32> = two.views().get("float").unwrap().iter().map(|b| f32::from_bits(*b as u32)).collect();
        ensure!(got == want, "SuperMinHash<f32> m={}: item {} (register rounded up to an integer) streamed twice and followed by {} other items: sketch differs from the position-wise minimum of the single-item sketches at position {:?}", c.m, x, others.len(), (0..c.m).find(|k| got[*k] != want[*k]));
    }
    Ok(Report::new(checked > 0).class_if(checked > 0, "item-with-rounded-up-register-found").class_if(checked == 0, "none-in-window"))
}

fn round_strategy(window: u32) -> impl Strategy<Value = RoundCase> {
    (prop::sample::select(vec![8usize, 16, 32, 64, 128]), any::<u64>()).prop_map(move |(m, base)| RoundCase { m, base, window: (window / m as u32).max(2000), partners: 24 })
}

pub fn run(ctx: &Ctx) {
    ctx.set_rule("(a) SetSketch histories: proptest generates (register type u16/u32, m, valid parameters, 2..4 sketchers, a pool of distinct items sized ~2.5 m (ln m + 4) so that lower bounds become active, and 1..13 operations \
        Sketch(i, items) | Merge(i <- j) | Merge(i <- i's twin) | MismatchMerge(i <- fresh sketcher with m+-1 | q+-1 | a(1+-2^-s) | b(1+2^-s), s in 1..39)). A model keeps the item set of each sketcher. After every step the registers are compared \
        with a fresh sketcher fed the model set once AND with the position-wise maximum of single-item sketches; estimate equality, get_low_sketch <= min register; a mismatching merge must return Err and leave registers, low bound, overflow count and estimate unchanged; \
        commutativity / associativity / idempotence are checked on rebuilt sketchers. Non-trivial = a merge between two non-empty sketchers. \
        (b) SuperMinHash (f64, f32, NoHash): sketch of a generated set (any presentation) == position-wise minimum of the sketches of its single items; non-trivial = >= 2 items. (c) targeted generator for SuperMinHash<f32>: labels are scanned for items whose single-item sketch holds a register rounded up to an integer (r + j == j + 1 in f32); each is paired with other items in both orders and compared with the position-wise minimum.");
    ctx.assume("parameter differences below 2^-40 relative are not generated: merge tolerates rounding-level differences on purpose (relative difference < f64::EPSILON)");
    super::run_fixed_tier(ctx, replay);
    let (cases, max_m, max_pool) = ctx.tier.pick((100_000, 128, 400), (1_500_000, 512, 2000));
    ctx.drive("setsketch-history", cases, 16, 1500, || strategy(max_m, max_pool), eval);
    let (cases, max_m, max_n) = ctx.tier.pick((100_000, 256, 600), (1_500_000, 2048, 6000));
    ctx.drive("superminhash-min", cases, 16, 1500, || min_strategy(max_m, max_n), eval_min);
    let (cases, window) = ctx.tier.pick((48, 4_000_000), (480, 16_000_000));
    ctx.drive("f32-roundup", cases, 16, 8, || round_strategy(window), eval_round);
}

pub fn replay(ctx: &Ctx, sub: &str, case: &Value) -> Result<(), String> {
    if sub == "f32-roundup" {
        let c: RoundCase = parse_case(case)?;
        ctx.run_fixed(sub, &c, eval_round);
    } else if sub == "superminhash-min" {
        let c: MinCase = parse_case(case)?;
        ctx.run_fixed(sub, &c, eval_min);
    } else {
        let c: Case = parse_case(case)?;
        ctx.run_fixed(sub, &c, eval);
    }
    Ok(())
}

