//! C13 - after reinit/reset a sketcher behaves exactly like a new one (model-based histories)
use crate::fw::*;
use crate::gen::*;
use crate::pmh::*;
use crate::sk::*;
use crate::util::*;
use fnv::FnvHasher;
use probminhash::probminhasher::probordminhash2::ProbOrdMinHash2;
use probminhash::probminhasher::ProbMinHash2;
use proptest::prelude::*;
use serde::{Deserialize, Serialize};
use serde_json::Value;
use wyhash::WyHash;

#[derive(Clone, Debug, Serialize, Deserialize)]
pub enum Op {
    Sketch(u16),
    Slice(Vec<u16>),
    /// finishing step (densified sketchers; skipped while nothing was streamed)
    Finish,
    /// SetSketch: merge a fresh sketcher holding these items (ignored by the other kinds)
    Merge(Vec<u16>),
    /// an extra reinit in the middle of the prefix
    Reinit,
    /// a long run of generated items (count, seed): 2^16 +- 1 and 2^17 items (per-instance counters)
    Bulk(u32, u64),
}

#[derive(Clone, Debug, Serialize, Deserialize)]
pub struct Case {
    pub kind: Kind,
    pub m: usize,
    pub ss: SsParams,
    pub pool: Vec<u64>,
    pub prefix: Vec<Op>,
    pub suffix: Vec<Op>,
}

fn op_strategy(pool: usize) -> impl Strategy<Value = Op> {
    let big = (pool / 2).max(1);
    prop_oneof![
        5 => any::<u16>().prop_map(Op::Sketch),
        2 => prop::collection::vec(any::<u16>(), 1..8).prop_map(Op::Slice),
        2 => prop::collection::vec(any::<u16>(), big..=pool.max(big)).prop_map(Op::Slice),
        2 => Just(Op::Finish),
        1 => prop::collection::vec(any::<u16>(), 1..=big).prop_map(Op::Merge),
        1 => Just(Op::Reinit),
    ]
}

fn prefix_op_strategy(pool: usize) -> impl Strategy<Value = Op> {
    prop_oneof![
        60 => op_strategy(pool),
        1 => (prop::sample::select(vec![65_535u32, 65_536, 65_537, 131_072, 131_071]), any::<u64>()).prop_map(|(n, s)| Op::Bulk(n, s)),
    ]
}

fn strategy(max_m: usize, max_pool: usize) -> impl Strategy<Value = Case> {
    (kind_strategy(), crate::gen::m_strategy(1, max_m), 0u8..3).prop_flat_map(move |(kind, m, shape)| {
        let want = match shape {
            0 => (m / 2).max(2),
            1 => 2 * m + 2,
            _ => ((m as f64) * ((m as f64).ln() + 4.0) * 2.0) as usize,
        };
        (ss_params(m), item_set((want.clamp(2, max_pool) / 2).max(1), want.clamp(2, max_pool))).prop_flat_map(move |(ss, pool)| {
            let pl = pool.len();
            (prop::collection::vec(prefix_op_strategy(pl), 0..12), prop::collection::vec(op_strategy(pl), 1..8)).prop_map(move |(prefix, suffix)| Case { kind, m, ss, pool: pool.clone(), prefix, suffix })
        })
    })
}

struct Interp<'a> {
    c: &'a Case,
    streamed: usize,
    finished_runs: usize,
    merges: usize,
}
impl<'a> Interp<'a> {
    fn apply(&mut self, s: &mut Box<dyn Sk>, op: &Op) -> Result<(), Fail> {
        let c = self.c;
        let item = |i: &u16| c.pool[idx16(*i, c.pool.len())];
        match op {
            Op::Sketch(i) => {
                s.sketch(item(i));
                self.streamed += 1;
            }
            Op::Slice(v) => {
                let xs: Vec<u64> = v.iter().map(item).collect();
                ensure!(s.slice(&xs), "sketch_slice refused a non-empty slice");
                self.streamed += xs.len();
                if c.kind.is_dens() {
                    self.finished_runs += 1;
                }
            }
            Op::Finish => {
                if c.kind.is_dens() && self.streamed > 0 {
                    s.finish();
                    self.finished_runs += 1;
                }
            }
            Op::Merge(v) => {
                let xs: Vec<u64> = v.iter().map(item).collect();
                if let Some(ok) = s.merge_items(&xs) {
                    ensure!(ok, "merge with a same-parameter sketcher was refused");
                    self.merges += 1;
                    self.streamed += xs.len();
                }
            }
            Op::Reinit => {
                s.reinit();
                self.streamed = 0;
            }
            Op::Bulk(n, seed) => {
                // SetSketch with thousands of registers would make this slow: only for sketchers of moderate size
                if c.m <= 256 {
                    for i in 0..*n as u64 {
                        s.sketch(splitmix64(seed.wrapping_add(i)));
                    }
                    self.streamed += *n as usize;
                }
            }
        }
        Ok(())
    }
}

/// everything observable; densified sketchers are compared through the raw state as well (their getters refuse unfinished sketches)
fn observe(s: &Box<dyn Sk>) -> (Option<Views>, Option<Raw>) {
    (catch(|| s.views()).ok(), s.raw())
}

pub fn eval(c: &Case) -> Eval {
    let mut used = make(c.kind, c.m, &c.ss);
    let mut it = Interp { c, streamed: 0, finished_runs: 0, merges: 0 };
    for op in &c.prefix {
        it.apply(&mut used, op)?;
    }
    let prefix_streamed = it.streamed;
    let prefix_finished = it.finished_runs;
    let prefix_merges = it.merges;
    let before = observe(&used);
    used.reinit();
    it.streamed = 0;
    let mut fresh = make(c.kind, c.m, &c.ss);
    let mut it2 = Interp { c, streamed: 0, finished_runs: 0, merges: 0 };
    // immediately after reinit the two must already be indistinguishable
    let (o1, o2) = (observe(&used), observe(&fresh));
    ensure!(o1 == o2, "{:?}: immediately after reinit the sketcher differs from a new one: {:?}", c.kind, diff(&o1, &o2));
    for (i, op) in c.suffix.iter().enumerate() {
        if matches!(op, Op::Reinit) {
            continue;
        }
        it.apply(&mut used, op)?;
        it2.apply(&mut fresh, op)?;
        let (o1, o2) = (observe(&used), observe(&fresh));
        ensure!(o1 == o2, "{:?} m={}: after reinit and {} further operations the reused sketcher differs from a new one given the same operations: {}", c.kind, c.m, i + 1, diff(&o1, &o2));
    }
    if c.kind.is_dens() && it.streamed > 0 {
        used.finish();
        fresh.finish();
        let (o1, o2) = (observe(&used), observe(&fresh));
        ensure!(o1 == o2, "{:?} m={}: after reinit, suffix and finishing the reused sketcher differs from a new one: {}", c.kind, c.m, diff(&o1, &o2));
    }
    let low_active = before.0.as_ref().and_then(|v| v.get("low").map(|l| (l[0] as i64) > 0)).unwrap_or(false);
    let overflowed = before.0.as_ref().and_then(|v| v.get("overflow").map(|l| l[0] > 0)).unwrap_or(false);
    let unfinished = c.kind.is_dens() && before.1.as_ref().map_or(false, |r| r.nb_empty > 0 && (r.nb_empty as usize) < c.m);
    Ok(Report::new(prefix_streamed > 0 && it.streamed > 0)
        .class(format!("{:?}", c.kind))
        .class_if(low_active, "prefix-left-active-lower-bound")
        .class_if(overflowed, "prefix-overflowed-registers")
        .class_if(prefix_merges > 0, "prefix-with-merge")
        .class_if(unfinished, "prefix-left-unfinished-densification")
        .class_if(prefix_finished > 0, "prefix-finished-densification")
        .class_if(prefix_streamed >= c.m, "prefix-n>=m"))
}

fn diff(a: &(Option<Views>, Option<Raw>), b: &(Option<Views>, Option<Raw>)) -> String {
    match (&a.0, &b.0) {
        (Some(x), Some(y)) => {
            if let Some(d) = x.first_diff(y) {
                return d;
            }
        }
        (None, None) => {}
        _ => return "one publishes its views, the other refuses".into(),
    }
    match (&a.1, &b.1) {
        (Some(x), Some(y)) if x != y => format!("raw state differs: nb_empty {} vs {}, first differing bin {:?}", x.nb_empty, y.nb_empty, (0..x.hashes.len()).find(|k| x.hashes[*k] != y.hashes[*k] || x.fl[*k] != y.fl[*k] || x.init[*k] != y.init[*k])),
        _ => "?".into(),
    }
}

// ------------------------------------------------------------------------------------------------------------
// ProbMinHash2::reset

#[derive(Clone, Debug, Serialize, Deserialize)]
pub struct P2Case {
    pub m: usize,
    pub wy: bool,
    pub prefix: Vec<(u64, F)>,
    pub suffix: Vec<(u64, F)>,
    /// how many items of the prefix are fed before an intermediate reset
    pub mid_reset: u16,
    /// additional items of negligible weight streamed before the reset (per-item counters advance, nothing else happens)
    #[serde(default)]
    pub filler: u32,
}

fn p2_strategy(max_m: usize) -> impl Strategy<Value = P2Case> {
    (crate::gen::m_strategy(1, max_m), any::<bool>(), weighted_set(0, 60, true).prop_map(|v| v), weighted_set(1, 60, true), any::<u16>(), prop_oneof![40 => Just(0u32), 1 => (0u32..70).prop_map(|d| 65_540 - d), 1 => (0u32..70).prop_map(|d| 131_076 - d)])
        .prop_map(|(m, wy, mut prefix, mut suffix, mid_reset, filler)| {
            // one case in 16: every weight is tiny (1e-308 .. 1e-305: the race overflows before all registers are filled,
            // see the known finding of C02); reset must still give back a new instance
            if mid_reset % 16 == 3 {
                for (i, p) in prefix.iter_mut().chain(suffix.iter_mut()).enumerate() {
                    p.1 = F(f64::from_bits(0x0010_0000_0000_0000 + (p.0 % 0x00B0_0000_0000_0000) + i as u64));
                }
            }
            // one case in 16: the history before the reset is the single item whose identifier equals the placeholder of the signature
            // (the signature then looks untouched although the registers are not)
            if mid_reset % 16 == 5 {
                prefix = vec![(PLACEHOLDER, F(1.0e6))];
            }
            P2Case { m: if filler > 0 { 2 + m % 30 } else { m }, wy, prefix, suffix, mid_reset, filler }
        })
}

fn p2_run<H: std::hash::Hasher + Default>(c: &P2Case) -> Eval {
    let mut used = ProbMinHash2::<u64, H>::new(c.m, PLACEHOLDER);
    let cut = idx16(c.mid_reset, c.prefix.len() + 1);
    for (i, (d, w)) in c.prefix.iter().enumerate() {
        if i == cut {
            used.reset();
        }
        used.hash_item(*d, w.0);
    }
    // a long run of items whose weight is negligible against the prefix (they are pruned at once), also split over two resets
    if c.filler > 0 {
        let wmax = c.prefix.iter().map(|p| p.1 .0).fold(1.0, f64::max);
        for i in 0..c.filler as u64 {
            if i == (c.filler / 2) as u64 {
                used.reset();
                for (d, w) in c.prefix.iter() {
                    used.hash_item(*d, w.0);
                }
            }
            used.hash_item(0xF111_0000_0000 + i, wmax * 1e-30);
        }
    }
    used.reset();
    let mut fresh = ProbMinHash2::<u64, H>::new(c.m, PLACEHOLDER);
    ensure!(used.get_signature() == fresh.get_signature() && bits(&used.verif_registers()) == bits(&fresh.verif_registers()), "ProbMinHash2: right after reset the signature / registers differ from a new instance");
    for (i, (d, w)) in c.suffix.iter().enumerate() {
        used.hash_item(*d, w.0);
        fresh.hash_item(*d, w.0);
        ensure!(used.get_signature() == fresh.get_signature(), "ProbMinHash2 m={}: after reset and {} items the signature differs from a new instance: {:?} vs {:?}", c.m, i + 1, used.get_signature(), fresh.get_signature());
        ensure!(bits(&used.verif_registers()) == bits(&fresh.verif_registers()), "ProbMinHash2 m={}: after reset and {} items the registers differ from a new instance", c.m, i + 1);
    }
    Ok(Report::new(!c.prefix.is_empty()).class("ProbMinHash2").class_if(c.prefix.len() >= c.m, "prefix-n>=m").class_if(c.filler > 0, "prefix-with>65000-negligible-items").class_if(c.prefix.len() == 1 && c.prefix[0].0 == PLACEHOLDER, "history-is-only-the-placeholder-item"))
}
fn bits(v: &[f64]) -> Vec<u64> {
    v.iter().map(|x| x.to_bits()).collect()
}
pub fn eval_p2(c: &P2Case) -> Eval {
    if c.wy {
        p2_run::<WyHash>(c)
    } else {
        p2_run::<FnvHasher>(c)
    }
}

// ------------------------------------------------------------------------------------------------------------
// ProbOrdMinHash2: hash_set clears its own state

#[derive(Clone, Debug, Serialize, Deserialize)]
pub struct OrdCase {
    pub m: u32,
    pub l: usize,
    pub alphabet: u8,
    pub history: Vec<Vec<u8>>,
    pub last: Vec<u8>,
}

fn ord_strategy() -> impl Strategy<Value = OrdCase> {
    (prop_oneof![Just(1u32), Just(2u32), 1u32..40, Just(64u32)], prop_oneof![6 => 1usize..5, 1 => 5usize..=15], 1u8..9).prop_flat_map(|(m, l, alphabet)| {
        let seq = move || prop::collection::vec(0u8..alphabet, l..(l + 14));
        (prop::collection::vec(seq(), 0..4), seq()).prop_map(move |(history, last)| OrdCase { m, l, alphabet, history, last })
    })
}

pub fn eval_ord(c: &OrdCase) -> Eval {
    let lab = |s: &Vec<u8>| s.iter().map(|x| 1000 + *x as u64).collect::<Vec<u64>>();
    let mut a = ProbOrdMinHash2::<FnvHasher>::new(c.m, c.l);
    let first = a.hash_set(&lab(&c.last));
    for h in &c.history {
        let _ = a.hash_set(&lab(h));
    }
    let again = a.hash_set(&lab(&c.last));
    ensure!(first == again, "ProbOrdMinHash2 m={} l={}: the same instance gives a different signature for {:?} after {} unrelated hash_set calls", c.m, c.l, c.last, c.history.len());
    // a second, new instance given only the last sequence
    let mut b = ProbOrdMinHash2::<FnvHasher>::new(c.m, c.l);
    let fresh = b.hash_set(&lab(&c.last));
    ensure!(fresh == again, "ProbOrdMinHash2 m={} l={}: an instance with history and a new instance disagree on {:?}", c.m, c.l, c.last);
    Ok(Report::new(!c.history.is_empty()).class("ProbOrdMinHash2").class_if(c.last.len() > c.alphabet as usize, "repeated-elements"))
}

pub fn run(ctx: &Ctx) {
    ctx.set_rule("(a) twelve unweighted sketcher kinds: proptest generates (kind, m, SetSketch parameters incl. b=1.0001 with u16 registers to force overflow, pool, a prefix history of 0..11 operations Sketch | Slice | Finish | Merge | Reinit and a suffix of 1..7 operations); \
        the prefix is applied, then reinit; a new instance is created; both receive the suffix and every observable (all views incl. get_low_sketch / get_nb_overflow / cardinal stats, and the raw state of the densified sketchers) is compared after reinit and after every suffix step. \
        (b) ProbMinHash2: prefix items, reset, suffix items vs a new instance (signature and registers after every item). (c) ProbOrdMinHash2: hash_set(x) on a new instance, after 0..3 unrelated hash_set calls on the same instance, and on a second new instance. \
        Non-trivial = prefix and suffix both stream at least one item (a/b) or at least one unrelated call (c).");
    super::run_fixed_tier(ctx, replay);
    let (cases, max_m, max_pool) = ctx.tier.pick((120_000, 128, 600), (2_000_000, 1024, 4000));
    ctx.drive("unweighted", cases, 16, 2000, || strategy(max_m, max_pool), eval);
    let cases = ctx.tier.pick(40_000, 800_000);
    ctx.drive("probminhash2", cases, 16, 2000, || p2_strategy(256), eval_p2);
    let cases = ctx.tier.pick(40_000, 800_000);
    ctx.drive("probordminhash2", cases, 16, 2000, ord_strategy, eval_ord);
}

pub fn replay(ctx: &Ctx, sub: &str, case: &Value) -> Result<(), String> {
    match sub {
        "probminhash2" => {
            let c: P2Case = parse_case(case)?;
            ctx.run_fixed(sub, &c, eval_p2);
        }
        "probordminhash2" => {
            let c: OrdCase = parse_case(case)?;
            ctx.run_fixed(sub, &c, eval_ord);
        }
        _ => {
            let c: Case = parse_case(case)?;
            ctx.run_fixed(sub, &c, eval);
        }
    }
    Ok(())
}

