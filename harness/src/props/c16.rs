//! C16 - truncated-exponential sampler has the right law on [0,1)
use crate::dist::L;
use crate::fw::*;
use crate::stat::*;
use crate::util::*;
use probminhash::exp01::ExpRestricted01;
use proptest::prelude::*;
use rand::distr::Distribution;
use rand::{RngCore, SeedableRng};
use rand_xoshiro::Xoshiro256PlusPlus;
use serde::{Deserialize, Serialize};
use serde_json::Value;

#[derive(Clone, Debug, Serialize, Deserialize)]
pub struct Case {
    pub lambda: F,
    pub n: u64,
    pub seed: u64,
    /// samples of the rejection-branch stratum (default n/2)
    #[serde(default)]
    pub branch_n: Option<u64>,
}

fn strategy(n: u64) -> impl Strategy<Value = Case> {
    let lam = prop_oneof![
        4 => (-9.0f64..1.6).prop_map(|e| 10f64.powf(e)),
        3 => (2u64..5000).prop_map(|m| ((m as f64) / ((m - 1) as f64)).ln()),
        1 => prop::sample::select(vec![std::f64::consts::LN_2, 0.5, 1.0, 1e-9, 40.0, 1e-3]),
        1 => (20.0f64..40.0),
        // the range where all three constants of the acceptance-rejection scheme shape the result
        3 => (0.2f64..12.0),
    ];
    (lam, any::<u64>()).prop_map(move |(lambda, seed)| Case { lambda: F(lambda), n, seed, branch_n: None })
}

/// target distribution function (1 - exp(-lambda x)) / (1 - exp(-lambda))
fn cdf(lambda: f64, x: f64) -> f64 {
    if x <= 0.0 {
        return 0.0;
    }
    if x >= 1.0 {
        return 1.0;
    }
    (-lambda * x).exp_m1() / (-lambda).exp_m1()
}

/// distribution function of the residual law with density proportional to exp(lambda (1-x)) - 1 on [0,1): positive-term series
fn residual_cdf(lambda: f64, x: f64) -> f64 {
    if x <= 0.0 {
        return 0.0;
    }
    if x >= 1.0 {
        return 1.0;
    }
    let (mut num, mut den) = (0.0f64, 0.0f64);
    let mut term = 1.0f64; // lambda^k / (k+1)!  built incrementally, starting at k = 1: lambda / 2
    let mut pw = 1.0 - x; // (1-x)^(k+1)
    for k in 1..400 {
        term *= lambda / (k as f64 + 1.0);
        pw *= 1.0 - x;
        num += term * (1.0 - pw);
        den += term;
        if term < 1e-18 * den && k as f64 > lambda {
            break;
        }
    }
    num / den
}


/// number of bins of each kind (equal width in x, equal probability under the reference law) in the binned comparison
const NBINS: usize = 64;

/// Binned comparison (sharper than the sup-distance for a defect confined to a narrow window): `xs` sorted. The empirical mass of
/// each of 64 equal-width bins and of each of 64 equal-probability bins of the reference distribution function is compared with its
/// exact mass by Bernstein's inequality (per comparison delta 1e-14 / 128). Returns the first failing bin as text.
fn binned(xs: &[f64], cdf: &dyn Fn(f64) -> f64) -> Option<String> {
    let n = xs.len() as f64;
    let l = L + (2.0 * NBINS as f64).ln();
    let mut edges: Vec<(f64, f64)> = Vec::new(); // (lo, hi)
    for k in 0..NBINS {
        edges.push((k as f64 / NBINS as f64, (k + 1) as f64 / NBINS as f64));
    }
    // equal-probability edges by bisection on the reference distribution function
    let mut q = vec![0.0f64];
    for k in 1..NBINS {
        let target = k as f64 / NBINS as f64;
        let (mut lo, mut hi) = (0.0f64, 1.0f64);
        for _ in 0..60 {
            let mid = 0.5 * (lo + hi);
            if cdf(mid) < target {
                lo = mid;
            } else {
                hi = mid;
            }
        }
        q.push(hi);
    }
    q.push(1.0);
    for k in 0..NBINS {
        if q[k + 1] > q[k] {
            edges.push((q[k], q[k + 1]));
        }
    }
    for (lo, hi) in edges {
        let p = (cdf(hi) - cdf(lo)).clamp(0.0, 1.0);
        let cnt = xs.partition_point(|x| *x < hi) - xs.partition_point(|x| *x < lo);
        let f = cnt as f64 / n;
        let tol = bernstein_tol(p * (1.0 - p), 1.0, l, n) + 1e-12;
        if (f - p).abs() > tol {
            return Some(format!("the interval [{:.6}, {:.6}) holds the fraction {:.6e} of {} samples, the law gives {:.6e} (Bernstein bound on the difference {:.3e})", lo, hi, f, xs.len(), p, tol));
        }
    }
    None
}

/// first word forced, then a real generator; counts the words consumed
struct Forced {
    first: Option<u64>,
    inner: Xoshiro256PlusPlus,
    consumed: u64,
}
impl RngCore for Forced {
    fn next_u32(&mut self) -> u32 {
        (self.next_u64() >> 32) as u32
    }
    fn next_u64(&mut self) -> u64 {
        self.consumed += 1;
        match self.first.take() {
            Some(w) => w,
            None => self.inner.next_u64(),
        }
    }
    fn fill_bytes(&mut self, dst: &mut [u8]) {
        for chunk in dst.chunks_mut(8) {
            let w = self.next_u64().to_le_bytes();
            chunk.copy_from_slice(&w[..chunk.len()]);
        }
    }
}

/// a few scripted generator words, then a real generator
struct Script {
    words: Vec<u64>,
    pos: usize,
    inner: Xoshiro256PlusPlus,
}
impl RngCore for Script {
    fn next_u32(&mut self) -> u32 {
        (self.next_u64() >> 32) as u32
    }
    fn next_u64(&mut self) -> u64 {
        let w = if self.pos < self.words.len() { self.words[self.pos] } else { self.inner.next_u64() };
        self.pos += 1;
        w
    }
    fn fill_bytes(&mut self, dst: &mut [u8]) {
        for chunk in dst.chunks_mut(8) {
            let w = self.next_u64().to_le_bytes();
            chunk.copy_from_slice(&w[..chunk.len()]);
        }
    }
}

/// sample once with the first generator word forced; returns (value, words consumed)
fn forced_sample(d: &ExpRestricted01, first: u64, inner_seed: u64) -> (f64, u64) {
    let mut g = Forced { first: Some(first), inner: Xoshiro256PlusPlus::seed_from_u64(inner_seed), consumed: 0 };
    let x = d.sample(&mut g);
    (x, g.consumed)
}

/// Find the smallest first word that makes the sampler consume more than one word (= enters the rejection branch).
/// Returns None when the sampler does not have the "first word decides" structure on this build (sub-check skipped).
fn branch_threshold(d: &ExpRestricted01) -> Option<u64> {
    // structure probe: word 0 must be answered from one word, and the answer must be monotone in the word
    let probes = [0u64, 1 << 20, 1 << 40, 1 << 60, 1 << 62];
    let mut last = -1.0f64;
    for w in probes {
        let (x, used) = forced_sample(d, w, 1);
        if used != 1 {
            // entering the branch this early is only possible for large lambda; handled by the bisection below if word 0 is direct
            if w == 0 {
                return None;
            }
            break;
        }
        if x < last {
            return None;
        }
        last = x;
    }
    let (_, used_max) = forced_sample(d, u64::MAX, 1);
    if used_max <= 1 {
        return None; // branch never entered (cannot happen for lambda > 0 unless the structure changed)
    }
    let (mut lo, mut hi) = (0u64, u64::MAX); // lo: direct, hi: branch
    while hi - lo > 1 {
        let mid = lo + (hi - lo) / 2;
        let (_, used) = forced_sample(d, mid, 1);
        if used == 1 {
            lo = mid;
        } else {
            hi = mid;
        }
    }
    // verify monotone structure around the threshold on a few random words
    let mut r = SmRng::new(99);
    for _ in 0..64 {
        let w = r.next_u64();
        let (_, used) = forced_sample(d, w, 3);
        if (w < hi) != (used == 1) {
            return None;
        }
    }
    Some(hi)
}

pub fn eval(c: &Case) -> Eval {
    let lambda = c.lambda.0;
    ensure!(lambda > 0.0 && lambda.is_finite(), "generator error");
    let d = ExpRestricted01::new(lambda);
    ensure!(d.get_lambda().to_bits() == lambda.to_bits(), "ExpRestricted01::new({:e}).get_lambda() returns {:e}", lambda, d.get_lambda());
    let run = |seed: u64, n: u64| -> Result<(f64, Option<String>), Fail> {
        let mut rng = Xoshiro256PlusPlus::seed_from_u64(seed);
        let mut xs: Vec<f64> = Vec::with_capacity(n as usize);
        for _ in 0..n {
            let x = d.sample(&mut rng);
            ensure!(x >= 0.0 && x < 1.0, "lambda = {:e}: sample {:e} outside [0,1)", lambda, x);
            xs.push(x);
        }
        let ks = ks_distance(&mut xs, |x| cdf(lambda, x));
        Ok((ks, binned(&xs, &|x| cdf(lambda, x))))
    };
    let tol = |n: u64| dkw_tol(L, n as f64);
    let (d1, bins1) = run(c.seed, c.n)?;
    if d1 > tol(c.n) || bins1.is_some() {
        let (d2, bins2) = run(splitmix64(c.seed ^ 0xC0FFEE), 4 * c.n)?;
        if let (Some(a), Some(b)) = (&bins1, &bins2) {
            ensure!(false, "lambda = {:e}: binned comparison with (1-exp(-lambda x))/(1-exp(-lambda)) fails: {}; on an independent seed: {}", lambda, a, b);
        }
        ensure!(d1 <= tol(c.n) || d2 <= tol(4 * c.n), "lambda = {:e}: Kolmogorov distance to (1-exp(-lambda x))/(1-exp(-lambda)) is {:.5} (n = {}) and {:.5} on an independent seed (n = {}), DKW bounds {:.5} / {:.5}", lambda, d1, c.n, d2, 4 * c.n, tol(c.n), tol(4 * c.n));
    }
    // stratified test of the rejection branch (probability 1 - lambda/(e^lambda - 1), e.g. 5e-10 at lambda = 1e-9)
    let mut branch_checked = false;
    let mut branch_samples = 0u64;
    if let Some(thr) = branch_threshold(&d) {
        // exact: the generator words right at the boundary between the direct answer and the rejection branch (where
        // c1 * u is within rounding of 1) must still give values in [0,1)
        for off in -512i64..=512 {
            let w = thr.wrapping_add(off as u64);
            let (x, _) = forced_sample(&d, w, 5);
            ensure!(x >= 0.0 && x < 1.0, "lambda = {:e}: with the first generator word {:#x} (within 512 of the branch boundary) the sample is {:e}, outside [0,1)", lambda, w, x);
        }
        // exact: inside the rejection branch, the extreme generator words (0, all ones and their neighbours) in the next three draws must
        // still give values in [0,1) (a closed base uniform, or a comparison accepting equality, returns exactly 1 there)
        let edge_words = [0u64, u64::MAX, u64::MAX - 1, 1, u64::MAX << 11, 1u64 << 63];
        for a in edge_words {
            for b in edge_words {
                for e in edge_words {
                    let mut g = Script { words: vec![u64::MAX.max(thr), a, b, e], pos: 0, inner: Xoshiro256PlusPlus::seed_from_u64(9) };
                    let x = d.sample(&mut g);
                    ensure!(x >= 0.0 && x < 1.0, "lambda = {:e}: with the generator words [{:#x}, {:#x}, {:#x}, {:#x}] (rejection branch, then extreme words) the sample is {:e}, outside [0,1)", lambda, u64::MAX.max(thr), a, b, e, x);
                }
            }
        }
        let nb = c.branch_n.unwrap_or(c.n / 2).max(50_000);
        let runb = |seed: u64, n: u64| -> Result<(f64, Option<String>), Fail> {
            let mut r = SmRng::new(seed);
            let mut xs: Vec<f64> = Vec::with_capacity(n as usize);
            let span = u64::MAX - thr; // words thr ..= u64::MAX
            for i in 0..n {
                let first = thr + if span == u64::MAX { r.next_u64() } else { r.below(span + 1) };
                let (x, _) = forced_sample(&d, first, r.next_u64() ^ i);
                ensure!(x >= 0.0 && x < 1.0, "lambda = {:e}: rejection branch returned {:e}, outside [0,1)", lambda, x);
                xs.push(x);
            }
            let ks = ks_distance(&mut xs, |x| residual_cdf(lambda, x));
            Ok((ks, binned(&xs, &|x| residual_cdf(lambda, x))))
        };
        let (b1, rb1) = runb(c.seed ^ 0xB, nb)?;
        if b1 > tol(nb) || rb1.is_some() {
            let (b2, rb2) = runb(splitmix64(c.seed ^ 0xBEEF), 4 * nb)?;
            if let (Some(a), Some(b)) = (&rb1, &rb2) {
                ensure!(false, "lambda = {:e}: samples produced by the rejection branch: binned comparison with the residual law ~ exp(lambda(1-x)) - 1 fails: {}; on an independent seed: {}", lambda, a, b);
            }
            ensure!(b1 <= tol(nb) || b2 <= tol(4 * nb), "lambda = {:e}: samples produced by the rejection branch (first uniform forced above {:.6}) have Kolmogorov distance {:.5} / {:.5} to the residual law ~ exp(lambda(1-x)) - 1, DKW bounds {:.5} / {:.5}", lambda, 1.0 / (lambda.exp_m1() / lambda), b1, b2, tol(nb), tol(4 * nb));
        }
        branch_checked = true;
        branch_samples = nb;
    }
    Ok(Report::new(true)
        .trials(c.n + branch_samples)
        .resolution(tol(c.n))
        .class_if(lambda < 1e-6, "lambda<1e-6")
        .class_if(lambda < 1e-2, "lambda<1e-2")
        .class_if(lambda > 10.0, "lambda>10")
        .class_if(branch_checked, "rejection-branch-stratum-checked")
        .class_if(!branch_checked, "rejection-branch-structure-not-recognised(skipped)"))
}

pub fn run(ctx: &Ctx) {
    ctx.set_rule("proptest generates lambda (log-uniform 1e-9..40, ln(m/(m-1)) for generated m as used by ProbMinHash3, ln 2, 0.5, 1, 40) and a generator seed. For each: n samples from a Xoshiro256++ stream; every sample must lie in [0,1) (exact); the Kolmogorov distance to the closed-form distribution function \
        (1-exp(-lambda x))/(1-exp(-lambda)) must be within the Dvoretzky-Kiefer-Wolfowitz bound (delta 1e-14, confirmed on an independent seed with 4x the samples). Stratified sub-check of the rejection branch: the first generator word is forced into the range that enters the branch (threshold found by bisection on the observed number of words consumed) \
        and the conditional samples are compared by DKW with the residual law proportional to exp(lambda(1-x)) - 1. Inside the branch, all 216 triples of extreme generator words (0, all ones and neighbours) must give values in [0,1) (exact). Both comparisons are also made bin by bin (64 equal-width and 64 equal-probability intervals, Bernstein bound per interval, delta 1e-14/128, confirmed on an independent seed), which resolves a defect confined to a narrow window. \
        Sub-check grid: a stratified sweep, one lambda in every cell of width 1/8 (thorough: 1/32) of (0,12] (place inside the cell drawn from the run seed), same decisions. Every lambda is a non-trivial case; distinct = distinct (lambda, seed).");
    ctx.assume("the stratified sub-check assumes that the first generator word alone decides whether the rejection branch is entered; this is verified on the build under test and the sub-check is skipped (and reported as skipped) otherwise");
    super::run_fixed_tier(ctx, replay);
    let (cases, n) = ctx.tier.pick((96, 4_000_000), (640, 20_000_000));
    ctx.drive("law", cases, 16, 12, || strategy(n), eval);
    // stratified sweep of the range where the constants of the acceptance-rejection scheme change regime: one lambda in every
    // cell of width `step` of (0, 12], its place inside the cell drawn from the run seed
    let (step, gn, gb) = ctx.tier.pick((0.125f64, 2_000_000u64, 6_000_000u64), (0.03125, 4_000_000, 12_000_000));
    let mut r = SmRng::new(mix(&[ctx.seed, 0xC16]));
    let cells = (12.0 / step) as u64;
    let grid: Vec<Case> = (0..cells).map(|i| Case { lambda: F(step * (i as f64 + (1 + r.below(1023)) as f64 / 1024.0)), n: gn, seed: r.next_u64(), branch_n: Some(gb) }).collect();
    ctx.sweep("grid", &grid, 16, eval);
}

pub fn replay(ctx: &Ctx, sub: &str, case: &Value) -> Result<(), String> {
    let c: Case = parse_case(case)?;
    ctx.run_fixed(sub, &c, eval);
    Ok(())
}
