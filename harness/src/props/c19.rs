//! C19 - invertible integer hashes are bijections with the given inverses
use crate::fw::*;
use crate::util::*;
use probminhash::invhash::*;
use proptest::prelude::*;
use serde::{Deserialize, Serialize};
use serde_json::{json, Value};
use std::sync::atomic::{AtomicU64, Ordering};

#[derive(Clone, Debug, Serialize, Deserialize)]
pub struct Case {
    pub width: u32,
    pub x: u64,
}

pub fn eval(c: &Case) -> Eval {
    if c.width == 32 {
        let x = c.x as u32;
        let h = int32_hash(x);
        let back = int32_hash_inverse(h);
        ensure!(back == x, "int32_hash_inverse(int32_hash({:#x})) = {:#x}", x, back);
        let hi = int32_hash_inverse(x);
        let fwd = int32_hash(hi);
        ensure!(fwd == x, "int32_hash(int32_hash_inverse({:#x})) = {:#x}", x, fwd);
    } else {
        let x = c.x;
        let h = int64_hash(x);
        let back = int64_hash_inverse(h);
        ensure!(back == x, "int64_hash_inverse(int64_hash({:#x})) = {:#x}", x, back);
        let hi = int64_hash_inverse(x);
        let fwd = int64_hash(hi);
        ensure!(fwd == x, "int64_hash(int64_hash_inverse({:#x})) = {:#x}", x, fwd);
    }
    // a value is non-trivial when hashing actually moves it (always true for these mixers except fixed points)
    Ok(Report::new(true).class(if c.width == 32 { "w32" } else { "w64" }))
}

#[inline]
fn ok32(x: u32) -> bool {
    int32_hash_inverse(int32_hash(x)) == x && int32_hash(int32_hash_inverse(x)) == x
}
#[inline]
fn ok64(x: u64) -> bool {
    int64_hash_inverse(int64_hash(x)) == x && int64_hash(int64_hash_inverse(x)) == x
}

/// structured 64-bit values: edges, single bits, bit pairs, 2^k +- 1, byte patterns, values placing carries
/// at the shifted adds (<<21, <<3, <<8, <<2, <<4, <<31) and at the xor-shift boundaries (24, 14, 28)
pub fn structured64() -> Vec<u64> {
    let mut v: Vec<u64> = vec![0, 1, 2, 3, u64::MAX, u64::MAX - 1, u64::MAX >> 1, 1 << 63, 0x5555555555555555, 0xAAAAAAAAAAAAAAAA];
    for i in 0..64 {
        v.push(1u64 << i);
        v.push(!(1u64 << i));
        v.push((1u64 << i).wrapping_sub(1));
        v.push((1u64 << i).wrapping_add(1));
        v.push(u64::MAX << i);
        v.push(u64::MAX >> i);
        for j in 0..i {
            v.push((1u64 << i) | (1u64 << j));
            v.push(!((1u64 << i) | (1u64 << j)));
        }
    }
    for b in 0..=255u64 {
        v.push(b * 0x0101010101010101);
        for pos in 0..8 {
            v.push(b << (8 * pos));
        }
    }
    for s in [2u32, 3, 4, 8, 14, 21, 24, 28, 31] {
        for d in [0u64, 1, 2] {
            v.push((u64::MAX >> s).wrapping_sub(d));
            v.push((u64::MAX >> s).wrapping_add(d + 1));
            v.push((1u64 << (64 - s)).wrapping_sub(d));
            v.push(((1u64 << (64 - s)) - 1) ^ ((1u64 << s) - 1));
        }
    }
    v.sort_unstable();
    v.dedup();
    v
}

fn strat64() -> impl Strategy<Value = Case> {
    let st = structured64();
    let n = st.len();
    prop_oneof![
        3 => any::<u64>(),
        1 => (0u64..65536),
        1 => (0u64..65536).prop_map(|x| u64::MAX - x),
        2 => (any::<u16>(), any::<u16>(), 0u32..64).prop_map(move |(i, j, r)| st[idx16(i, n)] ^ st[idx16(j, n)].rotate_left(r)),
        1 => (any::<u32>(), 0u32..64).prop_map(|(x, s)| (x as u64) << (s % 33)),
    ]
    .prop_map(|x| Case { width: 64, x })
}

pub fn run(ctx: &Ctx) {
    ctx.set_rule("32-bit pair: every one of the 2^32 values, both round trips (exhaustive, counted per value). 64-bit pair: \
        (a) a deterministic list of structured values (edges, single bits, bit pairs, 2^k+-1, byte patterns, carry boundaries of the shifted adds), \
        (b) proptest cases mixing uniform words, small/large values and xor-combinations of structured values, \
        (c) bulk uniform words from a seeded splitmix stream. A case is non-trivial when x != hash(x) (the mixer moved it); \
        distinct = distinct x (bulk values are counted as drawn; 64-bit collisions among <=1e9 draws are ignored in the count).");
    ctx.assume("2^64 cannot be enumerated: the 64-bit pair is explored, not closed");
    super::run_fixed_tier(ctx, replay);

    // ---- 32 bit, exhaustive in both tiers (about 2 s on 16 threads)
    let threads = 16u64;
    let bad = AtomicU64::new(u64::MAX);
    let moved = AtomicU64::new(0);
    std::thread::scope(|s| {
        for t in 0..threads {
            let bad = &bad;
            let moved = &moved;
            s.spawn(move || {
                let lo = (t << 32) / threads;
                let hi = ((t + 1) << 32) / threads;
                let mut mv = 0u64;
                for x in lo..hi {
                    let x32 = x as u32;
                    if !ok32(x32) {
                        bad.fetch_min(x, Ordering::Relaxed);
                    }
                    if int32_hash(x32) != x32 {
                        mv += 1;
                    }
                }
                moved.fetch_add(mv, Ordering::Relaxed);
            });
        }
    });
    let b = bad.load(Ordering::Relaxed);
    ctx.record_bulk("h32-exhaustive", 1u64 << 32, moved.load(Ordering::Relaxed), json!({"width": 32, "range": "0..=0xffffffff", "both_directions": true}));
    ctx.note("h32_exhaustive", json!(true));
    if b != u64::MAX {
        // smallest failing value is the minimal reproduction
        let c = Case { width: 32, x: b };
        let reason = eval(&c).err().map(|f| f.reason).unwrap_or_default();
        ctx.violation("h32", &c, &reason);
    }

    // ---- 64 bit structured list
    let st = structured64();
    for x in &st {
        let c = Case { width: 64, x: *x };
        match eval(&c) {
            Ok(rep) => ctx.record("h64-structured", &c, &rep.class("structured"), true),
            Err(f) => {
                ctx.violation("h64", &c, &f.reason);
                break;
            }
        }
    }

    // ---- 64 bit proptest
    let cases = ctx.tier.pick(400_000, 4_000_000);
    ctx.drive("h64", cases, 16, 4000, strat64, eval);

    // ---- 64 bit bulk
    let total: u64 = ctx.tier.pick(200_000_000, 4_000_000_000);
    let bad = AtomicU64::new(0);
    let found = std::sync::atomic::AtomicBool::new(false);
    let moved = AtomicU64::new(0);
    std::thread::scope(|s| {
        for t in 0..threads {
            let bad = &bad;
            let found = &found;
            let moved = &moved;
            let seed = ctx.seed;
            s.spawn(move || {
                let mut rng = SmRng::new(mix(&[seed, 0xC19, t]));
                let mut mv = 0u64;
                for _ in 0..total / threads {
                    let x = rng.next_u64();
                    if !ok64(x) && !found.swap(true, Ordering::Relaxed) {
                        bad.store(x, Ordering::Relaxed);
                    }
                    if int64_hash(x) != x {
                        mv += 1;
                    }
                }
                moved.fetch_add(mv, Ordering::Relaxed);
            });
        }
    });
    ctx.record_bulk("h64-bulk", total / threads * threads, moved.load(Ordering::Relaxed), json!({"width": 64, "stream": "splitmix64 seeded from VERIF_SEED", "example": format!("{:#x}", SmRng::new(mix(&[ctx.seed, 0xC19, 0])).next_u64())}));
    if found.load(Ordering::Relaxed) {
        let c = Case { width: 64, x: bad.load(Ordering::Relaxed) };
        let reason = eval(&c).err().map(|f| f.reason).unwrap_or_default();
        ctx.violation("h64", &c, &reason);
    }
}

pub fn replay(ctx: &Ctx, sub: &str, case: &Value) -> Result<(), String> {
    let c: Case = parse_case(case)?;
    ctx.run_fixed(sub, &c, eval);
    Ok(())
}

