//! C02 - a ProbMinHash signature is a function of the weighted set alone
use crate::fw::*;
use crate::gen::*;
use crate::pmh::*;
use crate::util::*;
use proptest::prelude::*;
use serde::{Deserialize, Serialize};
use serde_json::Value;
use std::collections::HashSet;

#[derive(Clone, Debug, Serialize, Deserialize)]
pub struct Case {
    pub variant: Variant,
    pub hasher: HasherKind,
    pub m: usize,
    /// the weighted set, distinct labels
    pub items: Vec<(u64, F)>,
    /// sort keys giving the insertion order of the plan (stable sort; missing keys = 0)
    pub order: Vec<u16>,
    /// batch boundaries (mapped monotonically onto stream positions)
    pub cuts: Vec<u16>,
    /// entry point selector per batch
    pub entries: Vec<u8>,
    /// indices of pairs that are inserted a second time
    pub reinsert: Vec<u16>,
    /// all weights are multiplied by 2^scale in the scaled run
    pub scale: i32,
    /// per item: 0 = only in A, 1 = only in B, 2 = in both (union sub-property)
    pub side: Vec<u8>,
}

/// weights below this cannot complete the coupon-collector fill before 1/w * i overflows (known finding D9)
pub fn tiny_threshold(m: usize) -> f64 {
    (m as f64) * ((m as f64).ln() + 40.0) / f64::MAX
}

fn tiny_weights(n: usize) -> impl Strategy<Value = Vec<f64>> {
    // from the smallest normal double up to ~1e-305
    prop::collection::vec((0x0010_0000_0000_0000u64..0x00C0_0000_0000_0000u64).prop_map(f64::from_bits), n)
}

fn strategy(max_m: usize, max_n: usize) -> impl Strategy<Value = Case> {
    let set = prop_oneof![
        12 => weighted_set(1, max_n, true),
        1 => (1usize..=6).prop_flat_map(|n| (labels(n), tiny_weights(n)).prop_map(|(l, w)| l.into_iter().zip(w.into_iter().map(F)).collect::<Vec<_>>())),
    ];
    (variant_strategy(), hasher_strategy(), set, 0u32..200).prop_flat_map(move |(variant, hasher, items, huge)| {
        // one case in 200: a very long signature with a tiny set (a single item then supplies > 65535 points)
        let (items, mlo, mhi) = if huge == 0 { (items.into_iter().take(3).collect::<Vec<_>>(), 6000usize, 20000usize) } else { (items, min_m(variant), max_m) };
        let n = items.len();
        (
            m_strategy(mlo.max(min_m(variant)), mhi),
            prop::collection::vec(any::<u16>(), 0..=(n + 4)),
            prop::collection::vec(any::<u16>(), 0..4),
            prop::collection::vec(any::<u8>(), 1..5),
            prop::collection::vec(any::<u16>(), 0..4),
            -200i32..200,
            prop::collection::vec(0u8..3, n),
        )
            .prop_map(move |(m, order, cuts, entries, reinsert, scale, side)| Case { variant, hasher, m, items: items.clone(), order, cuts, entries, reinsert, scale, side })
    })
}

fn plain(items: &[(u64, F)]) -> Vec<(u64, f64)> {
    items.iter().map(|(d, w)| (*d, w.0)).collect()
}

/// build the batches of the execution plan
fn plan(c: &Case) -> Vec<Batch> {
    let mut stream = plain(&c.items);
    for r in &c.reinsert {
        let p = stream[idx16(*r, c.items.len())];
        stream.push(p);
    }
    let mut keyed: Vec<(u16, (u64, f64))> = stream.iter().enumerate().map(|(i, p)| (c.order.get(i).cloned().unwrap_or(0), *p)).collect();
    keyed.sort_by_key(|k| k.0); // stable
    let stream: Vec<(u64, f64)> = keyed.into_iter().map(|k| k.1).collect();
    let mut cuts: Vec<usize> = c.cuts.iter().map(|x| idx16(*x, stream.len() + 1)).collect();
    cuts.push(0);
    cuts.push(stream.len());
    cuts.sort_unstable();
    cuts.dedup();
    let avail = entries(c.variant);
    let mut out = vec![];
    for (bi, w) in cuts.windows(2).enumerate() {
        let e = avail[(c.entries[bi % c.entries.len()] as usize) % avail.len()];
        out.push((e, stream[w[0]..w[1]].to_vec()));
    }
    out
}

/// compare two signatures position-wise; a position where they differ but the registers are bit-identical is an exact
/// floating-point tie between two items (legitimately order dependent): reported through `ties`
fn same_sig(a: &Out, b: &Out, what: &str, ties: &mut usize) -> Result<(), Fail> {
    ensure!(a.sig.len() == b.sig.len(), "{}: signature lengths differ", what);
    for k in 0..a.sig.len() {
        if a.sig[k] != b.sig[k] {
            if a.regs[k].to_bits() == b.regs[k].to_bits() {
                *ties += 1;
                continue;
            }
            return Err(Fail::new(format!(
                "{}: position {} holds item {} (register {:e}) in one run and item {} (register {:e}) in the other",
                what, k, a.sig[k], a.regs[k], b.sig[k], b.regs[k]
            )));
        }
    }
    Ok(())
}

pub fn eval(c: &Case) -> Eval {
    let items = plain(&c.items);
    let n = items.len();
    let m = c.m;
    let labels: HashSet<u64> = items.iter().map(|p| p.0).collect();
    ensure!(labels.len() == n, "generator error: labels not distinct");
    let wmax = items.iter().map(|p| p.1).fold(0.0, f64::max);
    let wmin = items.iter().map(|p| p.1).fold(f64::MAX, f64::min);
    let thr = tiny_threshold(m);
    let mut sorted = items.clone();
    sorted.sort_by_key(|p| p.0);

    // band just above the overflow threshold: neither asserted nor attributed
    if wmax >= thr && wmax < 10.0 * thr {
        return Ok(Report::new(false).excluded("band-above-tiny-weight-threshold"));
    }
    let tiny = wmax < thr;

    let canon = run_pmh(c.variant, c.hasher, m, &canonical(c.variant, &sorted));
    // membership: every position holds an item of the set
    for k in 0..m {
        if !labels.contains(&canon.sig[k]) {
            let msg = format!("position {} of the signature holds {} which is not an item of the set (placeholder = {}); weights in [{:e}, {:e}], m = {}", k, canon.sig[k], PLACEHOLDER, wmin, wmax, m);
            if tiny && canon.sig[k] == PLACEHOLDER {
                return Err(Fail::with_sig(msg, "pmh-winv-overflow"));
            }
            return Err(Fail::new(msg));
        }
    }
    let mut ties = 0usize;
    // order / batching / entry point / re-insertion
    let batches = plan(c);
    let planned = run_pmh(c.variant, c.hasher, m, &batches);
    same_sig(&canon, &planned, "insertion plan vs canonical insertion", &mut ties)?;
    // ProbMinHash3 == ProbMinHash3a
    if c.variant == Variant::P3 || c.variant == Variant::P3a {
        let other = if c.variant == Variant::P3 { Variant::P3a } else { Variant::P3 };
        let o = run_pmh(other, c.hasher, m, &canonical(other, &sorted));
        same_sig(&canon, &o, "ProbMinHash3 vs ProbMinHash3a", &mut ties)?;
    }
    // the map entry points of 3a / 3a-Sha accept weight 0 (such an entry is not part of the set): foreign zero-weight entries
    // before, between and after the items must change nothing
    if (c.variant == Variant::P3a || c.variant == Variant::P3aSha) && !tiny {
        let mut with_zeros: Vec<(u64, f64)> = vec![(PLACEHOLDER - 1, 0.0)];
        for (i, p) in sorted.iter().enumerate() {
            with_zeros.push(*p);
            if i % 2 == 0 {
                with_zeros.push((PLACEHOLDER - 2 - i as u64, 0.0));
            }
        }
        if !labels.contains(&(PLACEHOLDER - 1)) && with_zeros.iter().map(|p| p.0).collect::<HashSet<_>>().len() == with_zeros.len() {
            let o = run_pmh(c.variant, c.hasher, m, &[(Entry::IdxMap, with_zeros)]);
            same_sig(&canon, &o, "the set with additional zero-weight entries vs the set alone", &mut ties)?;
        }
    }
    // power-of-two scaling, only where IEEE scaling of every product and sum is exact
    let lo = 2f64.powi(-900);
    let hi = 2f64.powi(900);
    let f = 2f64.powi(c.scale);
    let mut scaled_checked = false;
    if wmin >= lo && wmax <= hi && wmin * f >= lo && wmax * f <= hi {
        let sc: Vec<(u64, f64)> = sorted.iter().map(|(d, w)| (*d, w * f)).collect();
        let o = run_pmh(c.variant, c.hasher, m, &canonical(c.variant, &sc));
        for k in 0..m {
            ensure!(o.sig[k] == canon.sig[k], "weights scaled by 2^{}: position {} holds {} instead of {}", c.scale, k, o.sig[k], canon.sig[k]);
        }
        scaled_checked = c.scale != 0;
    }
    // union of two weighted sets that agree on common items
    let a: Vec<(u64, f64)> = sorted.iter().filter(|p| c.side[items.iter().position(|q| q.0 == p.0).unwrap()] != 1).cloned().collect();
    let b: Vec<(u64, f64)> = sorted.iter().filter(|p| c.side[items.iter().position(|q| q.0 == p.0).unwrap()] != 0).cloned().collect();
    let mut union_checked = false;
    if !a.is_empty() && !b.is_empty() && !tiny {
        let wa = a.iter().map(|p| p.1).fold(0.0, f64::max);
        let wb = b.iter().map(|p| p.1).fold(0.0, f64::max);
        if wa >= 10.0 * thr && wb >= 10.0 * thr {
            let sa = run_pmh(c.variant, c.hasher, m, &canonical(c.variant, &a));
            let sb = run_pmh(c.variant, c.hasher, m, &canonical(c.variant, &b));
            for k in 0..m {
                let u = canon.sig[k];
                ensure!(u == sa.sig[k] || u == sb.sig[k], "union: position {} holds {} but the two parts hold {} and {}", k, u, sa.sig[k], sb.sig[k]);
                // mechanism level (register hook): the union's register is the smaller of the two and its item comes from that side
                let mn = sa.regs[k].min(sb.regs[k]);
                ensure!(canon.regs[k].to_bits() == mn.to_bits(), "union: register {} is {:e}, position-wise minimum of the parts is {:e}", k, canon.regs[k], mn);
                if sa.regs[k] < sb.regs[k] {
                    ensure!(u == sa.sig[k], "union: position {} should hold the item of the part with the smaller register ({}), holds {}", k, sa.sig[k], u);
                } else if sb.regs[k] < sa.regs[k] {
                    ensure!(u == sb.sig[k], "union: position {} should hold the item of the part with the smaller register ({}), holds {}", k, sb.sig[k], u);
                }
            }
            union_checked = a.len() < n || b.len() < n;
        }
    }
    let distinct_in_sig = canon.sig.iter().collect::<HashSet<_>>().len();
    let differs = batches.len() > 1 || batches[0].1 != canonical(c.variant, &sorted)[0].1 || batches[0].0 != canonical(c.variant, &sorted)[0].0;
    let mut rep = Report::new(n >= 3 && differs && distinct_in_sig >= 2)
        .class(format!("{:?}", c.variant))
        .class_if(batches.len() > 1, "several-batches")
        .class_if(!c.reinsert.is_empty(), "re-insertion")
        .class_if(wmax / wmin >= 1e12, "weight-ratio>=1e12")
        .class_if(union_checked, "union-checked")
        .class_if(scaled_checked, "scaling-checked")
        .class_if(tiny, "tiny-weights-stratum")
        .class_if(m > n, "m>n")
        .class_if(distinct_in_sig >= 2, "contested");
    if ties > 0 {
        rep = rep.class("exact-register-tie-tolerated");
    }
    Ok(rep)
}

// ---------------------------------------------------------------------------------------------------------
// long streams: tens of thousands of items of negligible weight between the items that matter (per-item state such as
// the lazily reset permutation must not leak across 2^16 items)

#[derive(Clone, Debug, Serialize, Deserialize)]
pub struct LongCase {
    pub variant: Variant,
    pub m: usize,
    pub heavy: Vec<(u64, F)>,
    pub filler: u32,
    pub seed: u64,
}

fn long_strategy() -> impl Strategy<Value = LongCase> {
    (prop::sample::select(vec![Variant::P2, Variant::P3]), 2usize..40, weighted_set(2, 6, false), prop_oneof![(0u32..10).prop_map(|d| 65_536 - d), (0u32..10).prop_map(|d| 131_072 - d), 65_000u32..66_000], any::<u64>()).prop_map(|(variant, m, heavy, filler, seed)| LongCase { variant, m, heavy, filler, seed })
}

pub fn long_eval(c: &LongCase) -> Eval {
    let heavy: Vec<(u64, f64)> = c.heavy.iter().map(|p| (p.0 >> 1, p.1 .0)).collect();
    let wmin = heavy.iter().map(|p| p.1).fold(f64::MAX, f64::min);
    let tiny: Vec<(u64, f64)> = (0..c.filler as u64).map(|i| ((splitmix64(c.seed.wrapping_add(i)) >> 1) | (1 << 62), wmin * 1e-40)).collect();
    // presentation 1: heavy items first; 2: first heavy item, the fillers, the other heavy items; 3: fillers first
    let mut s1 = heavy.clone();
    s1.extend(tiny.iter().cloned());
    let mut s2 = vec![heavy[0]];
    s2.extend(tiny.iter().cloned());
    s2.extend(heavy[1..].iter().cloned());
    let mut s3 = tiny.clone();
    s3.extend(heavy.iter().cloned());
    let run = |st: &Vec<(u64, f64)>| run_pmh(c.variant, HasherKind::Fnv, c.m, &[(Entry::Item, st.clone())]);
    let (o1, o2, o3) = (run(&s1), run(&s2), run(&s3));
    let mut ties = 0;
    same_sig(&o1, &o2, &format!("{:?} m={}: {} items of negligible weight streamed between the {} heavy items vs after them", c.variant, c.m, c.filler, heavy.len()), &mut ties)?;
    same_sig(&o1, &o3, &format!("{:?} m={}: {} items of negligible weight streamed before the {} heavy items vs after them", c.variant, c.m, c.filler, heavy.len()), &mut ties)?;
    // the fillers are so light that the signature is (with overwhelming probability) that of the heavy items alone
    let oh = run(&heavy);
    let same = (0..c.m).all(|k| oh.sig[k] == o1.sig[k]);
    Ok(Report::new(true).class(format!("{:?}", c.variant)).class_if(same, "signature-equals-that-of-the-heavy-items"))
}

// ---------------------------------------------------------------------------------------------------------
// ProbMinHash3aSha over keys that are not Copy (String, Vec<u8>)

#[derive(Clone, Debug, Serialize, Deserialize)]
pub struct ShaCase {
    pub m: usize,
    pub bytes_keys: bool,
    pub keys: Vec<(String, F)>,
    pub order: Vec<u16>,
    pub cuts: Vec<u16>,
    pub hashmap: Vec<bool>,
}

fn sha_strategy(max_m: usize) -> impl Strategy<Value = ShaCase> {
    (crate::gen::m_strategy(2, max_m), any::<bool>(), prop::collection::btree_map(prop_oneof![3 => "[a-z]{0,6}", 1 => "\\PC{0,12}", 1 => "[ab]{1,3}"], log_uniform(-6.0, 6.0).prop_map(F), 1..40))
        .prop_flat_map(|(m, bytes_keys, map)| {
            let keys: Vec<(String, F)> = map.into_iter().collect();
            let n = keys.len();
            (prop::collection::vec(any::<u16>(), 0..=n), prop::collection::vec(any::<u16>(), 0..3), prop::collection::vec(any::<bool>(), 1..4))
                .prop_map(move |(order, cuts, hashmap)| ShaCase { m, bytes_keys, keys: keys.clone(), order, cuts, hashmap })
        })
}

fn sha_eval_typed<D: Clone + Eq + Ord + std::fmt::Debug + std::hash::Hash + probminhash::probminhasher::sig::Sig>(c: &ShaCase, conv: impl Fn(&str) -> D, placeholder: D) -> Eval {
    let items: Vec<(D, f64)> = c.keys.iter().map(|(k, w)| (conv(k), w.0)).collect();
    ensure!(items.iter().all(|p| p.0 != placeholder), "generator error: key equals the placeholder");
    let (canon, canon_regs) = run_sha_keys(c.m, placeholder.clone(), &[(false, items.clone())]);
    for (k, d) in canon.iter().enumerate() {
        ensure!(items.iter().any(|p| p.0 == *d), "ProbMinHash3aSha: position {} holds {:?} which is not a key of the set", k, d);
    }
    let mut keyed: Vec<(u16, (D, f64))> = items.iter().enumerate().map(|(i, p)| (c.order.get(i).cloned().unwrap_or(0), p.clone())).collect();
    keyed.sort_by_key(|k| k.0);
    let stream: Vec<(D, f64)> = keyed.into_iter().map(|k| k.1).collect();
    let mut cuts: Vec<usize> = c.cuts.iter().map(|x| idx16(*x, stream.len() + 1)).collect();
    cuts.push(0);
    cuts.push(stream.len());
    cuts.sort_unstable();
    cuts.dedup();
    let batches: Vec<(bool, Vec<(D, f64)>)> = cuts.windows(2).enumerate().map(|(i, w)| (c.hashmap[i % c.hashmap.len()], stream[w[0]..w[1]].to_vec())).collect();
    // zero-weight foreign keys interleaved (the Sha variant accepts weight 0; such a key is not part of the set)
    let mut batches = batches;
    for (bi, (_, items)) in batches.iter_mut().enumerate() {
        if c.order.len() % 2 == 0 {
            items.insert(0, (conv(&format!("\u{3}zero-weight-{}", bi)), 0.0));
            items.push((conv(&format!("\u{3}zero-weight-end-{}", bi)), 0.0));
        }
    }
    let (planned, planned_regs) = run_sha_keys(c.m, placeholder, &batches);
    for k in 0..c.m {
        if canon[k] != planned[k] && canon_regs[k].to_bits() != planned_regs[k].to_bits() {
            return Err(Fail::new(format!("ProbMinHash3aSha over {} keys, m={}: position {} holds {:?} after the canonical insertion and {:?} after the plan ({} batches)", if c.bytes_keys { "Vec<u8>" } else { "String" }, c.m, k, canon[k], planned[k], batches.len())));
        }
    }
    let distinct = canon.iter().collect::<std::collections::BTreeSet<_>>().len();
    Ok(Report::new(items.len() >= 3 && distinct >= 2).class(if c.bytes_keys { "Vec<u8>-keys" } else { "String-keys" }).class_if(batches.len() > 1, "several-batches").class_if(c.hashmap.iter().any(|h| *h), "std-HashMap-entry"))
}

pub fn sha_eval(c: &ShaCase) -> Eval {
    if c.bytes_keys {
        sha_eval_typed::<Vec<u8>>(c, |s| s.as_bytes().to_vec(), vec![0xFF, 0xFE, 0xFD, 0xFC, 0xFB])
    } else {
        sha_eval_typed::<String>(c, |s| s.to_string(), String::from("\u{1}placeholder\u{2}"))
    }
}

pub fn run(ctx: &Ctx) {
    ctx.set_rule("proptest generates (variant, hasher, m, weighted set of 1..80 distinct items with weights from the strata equal / small integers / log-uniform 1e-6..1e6 / one item 1e6..1e12 x the rest / \
        log-uniform 1e-300..1e300 / tiny (below the overflow threshold, known finding), and an execution plan: permutation, split into 1..4 batches, entry point per batch, pairs inserted twice, a power-of-two scale, a split into two overlapping parts). \
        Oracles: plan vs canonical insertion give identical signatures; ProbMinHash3 == ProbMinHash3a; scaling by 2^k (where IEEE scaling is exact) changes nothing; every position holds an item of the set; \
        signature of the union takes each position from the part with the strictly smaller register (register hook) and that register is the position-wise minimum. \
        Non-trivial = >= 3 items, plan differs from the canonical run, signature holds >= 2 distinct items. Distinct = distinct serialised case. Second sub-check: ProbMinHash3aSha over String and Vec<u8> keys (not Copy): canonical IndexMap insertion vs a permuted, batched plan through IndexMap and std HashMap entry points; membership of every position.");
    ctx.assume("a signature difference at a position whose two registers are bit-identical is an exact floating-point tie between two items and is tolerated (counted in classes)");
    ctx.assume("cases whose largest weight lies within one decade above the overflow threshold m(ln m+40)/f64::MAX are neither asserted nor attributed (counted under excluded)");
    super::run_fixed_tier(ctx, replay);
    let (cases, max_m, max_n) = ctx.tier.pick((200_000, 256, 80), (5_000_000, 1024, 200));
    ctx.drive("plan", cases, 16, 3000, || strategy(max_m, max_n), eval);
    let cases = ctx.tier.pick(64, 1280);
    ctx.drive("long-streams", cases, 16, 6, long_strategy, long_eval);
    // the Sha variant over keys that are not Copy
    let cases = ctx.tier.pick(20_000, 400_000);
    ctx.drive("sha-keys", cases, 16, 2000, || sha_strategy(64), sha_eval);
}

pub fn replay(ctx: &Ctx, sub: &str, case: &Value) -> Result<(), String> {
    if sub == "long-streams" {
        let c: LongCase = parse_case(case)?;
        ctx.run_fixed(sub, &c, long_eval);
    } else if sub == "sha-keys" {
        let c: ShaCase = parse_case(case)?;
        ctx.run_fixed(sub, &c, sha_eval);
    } else {
        let c: Case = parse_case(case)?;
        ctx.run_fixed(sub, &c, eval);
    }
    Ok(())
}

