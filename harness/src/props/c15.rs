//! C15 - the max tracker always reports the true maximum of per-slot minima (model-based history check)
use crate::fw::*;
use crate::util::*;
use probminhash::verif_hooks::MaxTrackerF64;
use proptest::prelude::*;
use serde::{Deserialize, Serialize};
use serde_json::Value;

#[derive(Clone, Debug, Serialize, Deserialize)]
pub enum Op {
    /// slot selector (mapped monotonically onto 0..m), value
    Update(u16, F),
    Reset,
    /// every slot is offered the value, in ascending (true) or descending slot order
    Fill(F, bool),
    /// consecutive offers to the slots k, k + 65536, k + 2*65536, ... (below m), with non-decreasing values
    Stride(u16, F),
}

#[derive(Clone, Debug, Serialize, Deserialize)]
pub struct Case {
    pub m: usize,
    pub ops: Vec<Op>,
}

const POOL: [f64; 6] = [0.25, 0.5, 1.0, 1.0000000000000002, 3.0, 1e300];

fn value_strategy() -> impl Strategy<Value = F> {
    prop_oneof![
        5 => (0usize..6).prop_map(|i| POOL[i]),
        3 => (0.0f64..10.0),
        2 => any::<f64>().prop_filter("finite", |x| x.is_finite()),
        1 => Just(f64::MAX),
        1 => Just(0.0),
        1 => (1u64..4000).prop_map(|b| f64::from_bits(b)), // subnormals
        1 => (-5.0f64..5.0),
    ]
    .prop_map(F)
}

fn m_strategy(max_m: usize) -> impl Strategy<Value = usize> {
    prop_oneof![
        3 => 1usize..=8,
        3 => 1usize..=max_m,
        1 => prop::sample::select(vec![1usize, 2, 3, 4, 5, 7, 8, 9, 15, 16, 17, 31, 32, 33, 63, 64, 65]),
    ]
}

/// large trackers (tree depth above 16) driven mostly by whole-array fills, so that the maximum actually moves
fn big_strategy() -> impl Strategy<Value = Case> {
    (prop::sample::select(vec![32_767usize, 32_768, 32_769, 40_000, 65_535, 65_536, 65_537, 100_003, 131_073, 140_000]), prop::collection::vec(prop_oneof![3 => (value_strategy(), any::<bool>()).prop_map(|(v, a)| Op::Fill(v, a)), 2 => (any::<u16>(), value_strategy()).prop_map(|(s, v)| Op::Update(s, v)), 2 => (any::<u16>(), value_strategy()).prop_map(|(s, v)| Op::Stride(s, v)), 1 => Just(Op::Reset)], 1..7))
        .prop_map(|(m, ops)| Case { m, ops })
}

fn strategy(max_m: usize, max_ops: usize) -> impl Strategy<Value = Case> {
    (m_strategy(max_m), prop::collection::vec(prop_oneof![30 => (any::<u16>(), value_strategy()).prop_map(|(s, v)| Op::Update(s, v)), 1 => Just(Op::Reset)], 0..max_ops))
        .prop_map(|(m, ops)| Case { m, ops })
}

pub fn eval(c: &Case) -> Eval {
    let m = c.m;
    let mut t = MaxTrackerF64::new(m);
    let mut model = vec![f64::MAX; m];
    let mut improving = 0usize;
    let mut ties = 0usize;
    let mut nonimproving = 0usize;
    let mut resets_after_update = 0usize;
    let mut dirty = false;
    let check = |t: &MaxTrackerF64, model: &Vec<f64>, step: usize| -> Result<(), Fail> {
        let mx = model.iter().cloned().fold(f64::MIN, f64::max);
        for k in 0..m {
            let got = t.get_value(k);
            ensure!(got == model[k], "step {}: get_value({}) = {:e}, smallest value offered to that slot is {:e}", step, k, got, model[k]);
        }
        let got = t.get_max_value();
        ensure!(got == mx, "step {}: get_max_value() = {:e}, true maximum of slot values is {:e} (m = {}, first slots {:?})", step, got, mx, m, &model[..m.min(8)]);
        let mut probes = vec![mx, next_down(mx), 0.0, -1.0];
        if mx < f64::MAX {
            probes.push(next_up(mx));
        }
        probes.extend_from_slice(&POOL);
        // queries only (never offered to a slot): the infinities and NaN; NaN is not below anything
        probes.extend_from_slice(&[f64::INFINITY, f64::NEG_INFINITY, f64::NAN, f64::MAX, f64::MIN]);
        for v in probes {
            let got = t.is_update_possible(v);
            ensure!(got == (v < mx), "step {}: is_update_possible({:e}) = {} but maximum is {:e}", step, v, got, mx);
        }
        Ok(())
    };
    check(&t, &model, 0)?;
    for (i, op) in c.ops.iter().enumerate() {
        match op {
            Op::Update(s, v) => {
                let k = idx16(*s, m);
                let v = v.0;
                if v < model[k] {
                    improving += 1;
                    model[k] = v;
                } else {
                    nonimproving += 1;
                }
                let sib = k ^ 1;
                if sib < m && model[k] == model[sib] && model[k] != f64::MAX {
                    ties += 1;
                }
                dirty = true;
                t.update(k, v);
            }
            Op::Reset => {
                if dirty {
                    resets_after_update += 1;
                }
                dirty = false;
                model.fill(f64::MAX);
                t.reset();
            }
            Op::Stride(sel, v) => {
                let mut k = idx16(*sel, m.min(65536));
                let mut val = v.0;
                while k < m {
                    if val < model[k] {
                        improving += 1;
                        model[k] = val;
                    }
                    t.update(k, val);
                    k += 65536;
                    val = next_up(val);
                }
                dirty = true;
            }
            Op::Fill(v, asc) => {
                let v = v.0;
                for i in 0..m {
                    let k = if *asc { i } else { m - 1 - i };
                    if v < model[k] {
                        improving += 1;
                        model[k] = v;
                    }
                    t.update(k, v);
                }
                dirty = true;
            }
        }
        check(&t, &model, i + 1)?;
    }
    Ok(Report::new(improving >= 2 && m >= 2)
        .class_if(m == 1, "m=1")
        .class_if(m % 2 == 1 && m > 1, "m-odd")
        .class_if(m.is_power_of_two() && m > 1, "m-pow2")
        .class_if(!m.is_power_of_two() && m % 2 == 0, "m-even-not-pow2")
        .class_if(ties > 0, "sibling-tie")
        .class_if(nonimproving > 0, "non-improving-update")
        .class_if(resets_after_update > 0, "reset-after-updates"))
}

pub fn run(ctx: &Ctx) {
    ctx.set_rule("histories of Update(slot,value)/Reset over trackers with 1..=70 (quick) or 1..=300 (thorough) slots generated by proptest; values from a pool of 6 (forces ties \
        and equal siblings) mixed with random finite doubles, subnormals, negatives and f64::MAX; after every step the tracker is compared with a model vector of minima \
        (get_value for every slot, get_max_value, is_update_possible on the maximum, its neighbours, the pool, the infinities and NaN (as queries only)). Non-trivial = at least 2 improving updates on a tracker with >= 2 slots; \
        distinct = distinct serialised history. A second generator uses trackers of 32 767 .. 100 003 slots driven by whole-array fills (ascending / descending), single updates and resets.");
    ctx.assume("NaN is never offered (the tracker requires PartialOrd values; all callers pass positive race values)");
    super::run_fixed_tier(ctx, replay);
    let (cases, max_m, max_ops) = ctx.tier.pick((300_000, 70, 400), (1_500_000, 300, 1200));
    ctx.drive("history", cases, 16, 20000, || strategy(max_m, max_ops), eval);
    let cases = ctx.tier.pick(160, 3200);
    ctx.drive("big-trackers", cases, 16, 60, big_strategy, eval);
}

pub fn replay(ctx: &Ctx, sub: &str, case: &Value) -> Result<(), String> {
    let c: Case = parse_case(case)?;
    ctx.run_fixed(sub, &c, eval);
    Ok(())
}

