//! C06 - SetSketch cardinality estimate is accurate and monotone
use crate::fw::*;
use crate::gen::*;
use crate::sk::SsParams;
use crate::stat::Acc;
use crate::util::*;
use fnv::FnvHasher;
use num::{Bounded, FromPrimitive, Integer, ToPrimitive};
use probminhash::setsketcher::{MleJaccard, SetSketcher};
use proptest::prelude::*;
use serde::{Deserialize, Serialize};
use serde_json::Value;

trait Reg: Integer + ToPrimitive + FromPrimitive + Bounded + Copy + Clone + Send + Sync + std::fmt::Debug {}
impl Reg for u16 {}
impl Reg for u32 {}
type Sks<I> = SetSketcher<I, u64, FnvHasher>;

// ---------------------------------------------------------------------------------------------
// (a) accuracy: bias and spread

#[derive(Clone, Debug, Serialize, Deserialize)]
pub struct AccCase {
    pub wide: bool,
    pub m: usize,
    pub ss: SsParams,
    pub n: u64,
    /// every item is streamed `dup` times
    pub dup: u8,
    pub trials: u64,
    pub seed: u64,
}

fn acc_strategy(max_m: usize, max_n: u64, work: u64) -> impl Strategy<Value = AccCase> {
    let b = prop_oneof![3 => prop::sample::select(vec![1.001f64, 1.01, 1.1, 1.5, 2.0]), 2 => (-4.0f64..0.0).prop_map(|e| 1.0 + 10f64.powf(e))];
    let n = prop_oneof![1 => Just(1u64), 2 => 1u64..30, 4 => (0.0f64..(max_n as f64).ln()).prop_map(|l| l.exp() as u64)];
    (any::<bool>(), prop_oneof![12 => prop::sample::select(vec![16usize, 17, 24, 32, 64, 65, 100, 128, 256, 512, 1000, 1024, 4096]).prop_filter("m", move |m| *m <= max_m), 1 => prop::sample::select(vec![66_000usize, 70_000])], b, n, prop_oneof![3 => Just(1u8), 1 => 2u8..4], any::<u64>()).prop_map(move |(wide, m, b, n, dup, seed)| {
        // sketches of more than 2^16 registers (one case in thirteen): tiny sets (an insertion costs O(m)), a base of at least 1.01 so that
        // the documented q fits 16-bit registers, 16-bit registers in three cases out of four
        let (n, b, wide) = if m > 60_000 { (1 + n % 8, if b < 1.01 { [1.01, 1.1, 1.5, 2.0][(seed >> 40) as usize % 4] } else { b }, (seed >> 44) % 4 == 0) } else { (n, b, wide) };
        let n = n.max(1);
        let ss = SsParams::documented(b, m, (n as f64).max(10.0), 1.0e-6);
        let wide = wide || ss.q + 1 > 65534;
        // budget in register operations: an insertion touches all m registers until the lower bound becomes active (about m ln m
        // items), afterwards about m^2 / i registers for the i-th item
        // the minimum of 600 trials must stay affordable: very large sets on large sketches are cut down until 600 trials cost at most
        // eight times the budget of a case
        let cost = |n: u64| -> f64 {
            let (nf, mf) = (n as f64, m as f64);
            if nf <= mf { nf * mf } else { mf * mf + 4.0 * mf * mf * (nf / mf).ln() + nf }
        };
        let mut n = n;
        while n > 1 && 600.0 * (dup as f64) * cost(n) > 8.0 * work as f64 {
            n /= 2;
        }
        let (nf, mf) = (n as f64, m as f64);
        let per_item_total = cost(n);
        let _ = (nf, mf);
        let per_trial = ((dup as f64) * per_item_total + 8.0 * mf) as u64;
        let trials = (work / per_trial.max(1)).clamp(600, 40_000);
        AccCase { wide, m, ss, n, dup, trials, seed }
    })
}

#[derive(Default, Clone, Copy)]
struct Moments {
    n: f64,
    s1: f64,
    s2: f64,
    s3: f64,
    s4: f64,
}
impl Moments {
    fn push(&mut self, x: f64) {
        self.n += 1.0;
        self.s1 += x;
        self.s2 += x * x;
        self.s3 += x * x * x;
        self.s4 += x * x * x * x;
    }
    fn mean(&self) -> f64 {
        self.s1 / self.n
    }
    fn var(&self) -> f64 {
        let m = self.mean();
        ((self.s2 / self.n) - m * m).max(0.0) * self.n / (self.n - 1.0)
    }
    fn kurtosis(&self) -> f64 {
        let m = self.mean();
        let m2 = self.s2 / self.n - m * m;
        let m4 = self.s4 / self.n - 4.0 * m * self.s3 / self.n + 6.0 * m * m * self.s2 / self.n - 3.0 * m * m * m * m;
        if m2 <= 0.0 {
            3.0
        } else {
            m4 / (m2 * m2)
        }
    }
}

fn acc_sample<I: Reg>(c: &AccCase, seed: u64, trials: u64) -> Result<(Moments, f64), Fail> {
    let p = c.ss.to_params(c.m);
    let mut s = Sks::<I>::new(p, Default::default());
    let mut rng = SmRng::new(seed);
    let mut mo = Moments::default();
    let mut rsd = 0.0;
    for _ in 0..trials {
        s.reinit();
        let base = rng.next_u64();
        for d in 0..c.dup {
            let _ = d;
            for i in 0..c.n {
                s.sketch(&splitmix64(base ^ i.wrapping_mul(0x9E3779B97F4A7C15))).unwrap();
            }
        }
        let (est, r) = s.get_cardinal_stats();
        ensure!(est.is_finite() && est > 0.0, "cardinality estimate {:e} for n = {}", est, c.n);
        rsd = r;
        mo.push(est / c.n as f64 - 1.0);
    }
    Ok((mo, rsd))
}

pub fn eval_acc(c: &AccCase) -> Eval {
    let (b, m) = (c.ss.b.0, c.m as f64);
    // advertised relative standard deviation, recomputed independently
    let adv = (((b + 1.0) / (b - 1.0) * (b - 1.0).ln_1p() - 1.0) / m).sqrt();
    let what = format!("SetSketch b={:e} m={} a={:.4} q={} n={} (each item streamed {}x)", b, c.m, c.ss.a.0, c.ss.q, c.n, c.dup);
    let judge = |mo: &Moments, rsd: f64| -> Option<String> {
        if (rsd - adv).abs() > 1e-9 * adv {
            return Some(format!("advertised relative standard deviation {:e} differs from sqrt(((b+1)/(b-1) ln b - 1)/m) = {:e}", rsd, adv));
        }
        let t = mo.n;
        let sd = mo.var().sqrt();
        // (i) expected relative error at most 2 RSD^2 (normal approximation, z = 7.5, standard error floored by the advertised one)
        let se = sd.max(adv) / t.sqrt();
        if mo.mean().abs() > 2.0 * adv * adv + 7.5 * se {
            return Some(format!("mean relative error {:.5e} exceeds 2 RSD^2 = {:.5e} by more than 7.5 standard errors ({:.3e}), T = {}", mo.mean(), 2.0 * adv * adv, se, t));
        }
        // (ii) spread within 15% of the advertised one for m >= 64
        if c.m >= 64 {
            let kurt = mo.kurtosis().max(3.0);
            let se_rel = ((kurt - 1.0) / (4.0 * t)).sqrt();
            let ratio = sd / adv;
            if (ratio - 1.0).abs() > 0.15 + 7.5 * se_rel {
                return Some(format!("observed relative spread / advertised relative standard deviation = {:.4} (allowed 1 +- {:.4}), T = {}", ratio, 0.15 + 7.5 * se_rel, t));
            }
        }
        None
    };
    let run = |seed: u64, t: u64| if c.wide { acc_sample::<u32>(c, seed, t) } else { acc_sample::<u16>(c, seed, t) };
    let (mo, rsd) = run(c.seed, c.trials)?;
    if let Some(first) = judge(&mo, rsd) {
        let (mo2, rsd2) = run(splitmix64(c.seed ^ 0xC0FFEE), 4 * c.trials)?;
        if let Some(second) = judge(&mo2, rsd2) {
            return Err(Fail::new(format!("{}: {} ; on an independent seed with 4x the trials: {}", what, first, second)));
        }
    }
    Ok(Report::new(c.n >= 1)
        .trials(c.trials)
        .class(if c.wide { "u32" } else { "u16" })
        .class_if(c.m >= 64, "m>=64(spread-tested)")
        .class_if(c.n < c.m as u64, "n<m")
        .class_if(c.n >= 8 * c.m as u64, "n>=8m")
        .class_if(c.dup > 1, "with-repeated-items")
        .class_if(c.n == 1, "n=1")
        .class_if(c.m > 65_535, "m>65535"))
}

// ---------------------------------------------------------------------------------------------
// (b) exact: monotone under sketch and merge; parallel estimator agrees

#[derive(Clone, Debug, Serialize, Deserialize)]
pub enum Op {
    Sketch(Vec<u16>),
    Merge(Vec<u16>),
}

#[derive(Clone, Debug, Serialize, Deserialize)]
pub struct MonoCase {
    pub wide: bool,
    pub m: usize,
    pub ss: SsParams,
    pub pool: Vec<u64>,
    pub ops: Vec<Op>,
    pub threads: Vec<u8>,
}

fn mono_strategy(max_m: usize, max_pool: usize) -> impl Strategy<Value = MonoCase> {
    (any::<bool>(), prop_oneof![2 => 1usize..=16, 2 => crate::gen::m_strategy(1, max_m)]).prop_flat_map(move |(wide, m)| {
        let want = ((m as f64) * ((m as f64).ln() + 4.0) * 2.0) as usize;
        (ss_params(m), item_set(2, want.clamp(4, max_pool))).prop_flat_map(move |(ss, pool)| {
            let pl = pool.len();
            let idx = move |hi: usize| prop::collection::vec(any::<u16>(), 0..=hi);
            (prop::collection::vec(prop_oneof![3 => idx(6).prop_map(Op::Sketch), 1 => idx(pl).prop_map(Op::Sketch), 2 => idx(pl / 2 + 1).prop_map(Op::Merge)], 1..14), prop::collection::vec(prop::sample::select(vec![1u8, 2, 3, 8, 16]), 1..3))
                .prop_map(move |(ops, threads)| MonoCase { wide: wide || ss.q + 1 > 65534 && ss.b.0 < 1.0005, m, ss, pool: pool.clone(), ops, threads })
        })
    })
}

/// rayon pools of the tested sizes, created once per process
fn pool_of(threads: usize) -> &'static rayon::ThreadPool {
    static POOLS: std::sync::OnceLock<Vec<(usize, rayon::ThreadPool)>> = std::sync::OnceLock::new();
    let pools = POOLS.get_or_init(|| [1usize, 2, 3, 8, 16].iter().map(|t| (*t, rayon::ThreadPoolBuilder::new().num_threads(*t).build().expect("rayon pool"))).collect());
    &pools.iter().find(|p| p.0 == threads).unwrap_or(&pools[0]).1
}

fn mono_typed<I: Reg>(c: &MonoCase) -> Eval
where
    [I]: rayon::slice::ParallelSlice<I>,
{
    let p = c.ss.to_params(c.m);
    let mut s = Sks::<I>::new(p, Default::default());
    let mle = MleJaccard::from(p);
    let mut last = s.get_cardinal_stats().0;
    ensure!(last.is_finite() && last > 0.0, "estimate of the empty sketch is {:e}", last);
    let mut merges = 0;
    let mut grew = 0;
    for (step, op) in c.ops.iter().enumerate() {
        match op {
            Op::Sketch(ix) => {
                for i in ix {
                    let x = c.pool[idx16(*i, c.pool.len())];
                    s.sketch(&x).unwrap();
                    let e = s.get_cardinal_stats().0;
                    ensure!(e >= last, "step {}: the estimate decreased from {:e} to {:e} when item {} was added", step, last, e, x);
                    if e > last {
                        grew += 1;
                    }
                    last = e;
                }
            }
            Op::Merge(ix) => {
                let mut o = Sks::<I>::new(p, Default::default());
                for i in ix {
                    o.sketch(&c.pool[idx16(*i, c.pool.len())]).unwrap();
                }
                ensure!(s.merge(&o).is_ok(), "step {}: merge of a same-parameter sketch refused", step);
                merges += 1;
                let e = s.get_cardinal_stats().0;
                ensure!(e >= last, "step {}: the estimate decreased from {:e} to {:e} when a sketch of {} items was merged in", step, last, e, ix.len());
                let eo = o.get_cardinal_stats().0;
                ensure!(e >= eo || ix.is_empty(), "step {}: the estimate after the merge ({:e}) is below the estimate of the merged-in sketch ({:e})", step, e, eo);
                if e > last {
                    grew += 1;
                }
                last = e;
            }
        }
        // parallel estimator on the raw register slice, under rayon pools of several sizes, repeated
        let sig = s.get_signature().clone();
        let tol = 4.0 * c.m as f64 * f64::EPSILON;
        for t in &c.threads {
            let pool = pool_of(*t as usize);
            for _ in 0..2 {
                let par = pool.install(|| mle.get_cardinal_estimate(&sig));
                ensure!(((par - last) / last).abs() <= tol, "step {}: parallel estimate {:e} ({} threads) and the sketcher's own estimate {:e} differ by more than rounding (relative {:e})", step, par, t, last, ((par - last) / last).abs());
            }
        }
    }
    Ok(Report::new(grew >= 2).class(if c.wide { "u32" } else { "u16" }).class_if(merges > 0, "with-merge").class_if(s.get_low_sketch() > 0, "lower-bound-active").class_if(c.threads.iter().any(|t| *t > 1), "multi-thread-pool"))
}

pub fn eval_mono(c: &MonoCase) -> Eval {
    if c.wide {
        mono_typed::<u32>(c)
    } else {
        mono_typed::<u16>(c)
    }
}

// ---------------------------------------------------------------------------------------------
// (c) SetSketcher::default() must be the sketcher of SetSketchParams::default()

#[derive(Clone, Debug, Serialize, Deserialize)]
pub struct DefCase {
    pub n: u32,
    pub seed: u64,
}

pub fn eval_default(c: &DefCase) -> Eval {
    use probminhash::setsketcher::SetSketchParams;
    let p = SetSketchParams::default();
    let mut d: Sks<u16> = Default::default();
    let mut e: Sks<u16> = Sks::<u16>::new(p, Default::default());
    for i in 0..c.n as u64 {
        let x = splitmix64(c.seed.wrapping_add(i));
        d.sketch(&x).unwrap();
        e.sketch(&x).unwrap();
    }
    ensure!(d.get_signature() == e.get_signature(), "SetSketcher::default() and SetSketcher::new(SetSketchParams::default()) give different registers for the same {} items", c.n);
    let (cd, rd) = d.get_cardinal_stats();
    let (ce, re) = e.get_cardinal_stats();
    ensure!(cd.to_bits() == ce.to_bits() && rd.to_bits() == re.to_bits(), "SetSketcher::default(): cardinal stats ({:e}, {:e}) differ from those of new(default params) ({:e}, {:e})", cd, rd, ce, re);
    ensure!(d.get_b() == p.get_b(), "SetSketcher::default(): get_b() = {:e}, default parameters have b = {:e}", d.get_b(), p.get_b());
    let par = MleJaccard::from(p).get_cardinal_estimate(d.get_signature());
    ensure!(((par - cd) / cd).abs() <= 4.0 * 4096.0 * f64::EPSILON, "SetSketcher::default(): parallel estimate {:e} vs own estimate {:e}", par, cd);
    if c.n >= 2000 {
        // 4096 registers: relative standard deviation 1.6 %; 25 % is more than 15 sigma
        ensure!((cd / c.n as f64 - 1.0).abs() < 0.25, "SetSketcher::default(): estimate {:e} for {} items", cd, c.n);
    }
    ensure!(e.merge(&d).is_ok() && d.merge(&e).is_ok(), "default() and new(default params) sketchers refuse to merge");
    Ok(Report::new(c.n > 0).class_if(c.n >= 2000, "n>=2000"))
}

pub fn run(ctx: &Ctx) {
    ctx.set_rule("(a) accuracy: proptest generates (register type, m in 16..4096, b in (1,2], a and q as documented for eps = 1e-6, n from 1 to the tier maximum, repetition factor, trial seed); per trial n fresh random items (each streamed dup times) and x = n_hat/n - 1. \
        Decisions: |mean x| <= 2 RSD^2 + 7.5 standard errors (m >= 16, where the estimator has many finite moments; normal approximation); for m >= 64 |sd(x)/RSD - 1| <= 0.15 + 7.5 se_rel with se_rel from the empirical kurtosis; the advertised RSD equals sqrt(((b+1)/(b-1) ln b - 1)/m); failures are re-tested on an independent seed with 4x trials. \
        (b) exact: proptest histories of Sketch(items) / Merge(fresh sketch of items) over valid parameter tuples: the estimate never decreases (checked after every single item and every merge), and MleJaccard::get_cardinal_estimate on the raw registers agrees with get_cardinal_stats().0 to 4 m eps relative under rayon pools of 1, 2, 3, 8, 16 threads, called twice. \
        Non-trivial = (a) every case, (b) the estimate strictly grew at least twice. (c) SetSketcher::default() vs SetSketcher::new(SetSketchParams::default()): identical registers, stats, mergeable, estimate within 25 % for n >= 2000.");
    ctx.assume("the expectation claim is tested from m = 16 (for m <= 2 the estimator has infinite variance and no mean-based test is sound) and uses a normal approximation with z = 7.5; the spread claim from m = 64 as stated");
    ctx.assume("rayon's reduction tree cannot be enumerated; agreement is checked to a tolerance that covers every summation order");
    super::run_fixed_tier(ctx, replay);
    let (cases, max_m, max_n, work) = ctx.tier.pick((96, 1024, 20_000, 400_000_000), (1000, 4096, 2_000_000, 1_500_000_000));
    ctx.drive("accuracy", cases, 16, 12, || acc_strategy(max_m, max_n, work), eval_acc);
    let (cases, max_m, max_pool) = ctx.tier.pick((6_000, 256, 500), (150_000, 1024, 3000));
    ctx.drive("monotone-and-parallel", cases, 16, 1000, || mono_strategy(max_m, max_pool), eval_mono);
    let cases = ctx.tier.pick(64, 1200);
    ctx.drive("default-constructor", cases, 16, 20, || (prop_oneof![1 => 0u32..50, 2 => 50u32..20_000], any::<u64>()).prop_map(|(n, seed)| DefCase { n, seed }), eval_default);
}

pub fn replay(ctx: &Ctx, sub: &str, case: &Value) -> Result<(), String> {
    if sub == "default-constructor" {
        let c: DefCase = parse_case(case)?;
        ctx.run_fixed(sub, &c, eval_default);
    } else if sub == "accuracy" {
        let c: AccCase = parse_case(case)?;
        ctx.run_fixed(sub, &c, eval_acc);
    } else {
        let c: MonoCase = parse_case(case)?;
        ctx.run_fixed(sub, &c, eval_mono);
    }
    Ok(())
}
