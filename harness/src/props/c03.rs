//! C03 - SuperMinHash and SuperMinHash2 estimate the Jaccard index without bias
use crate::dist::*;
use crate::fw::*;
use crate::oracle::jp::jaccard;
use crate::sk::*;
use crate::stat::*;
use crate::util::*;
use proptest::prelude::*;
use serde::{Deserialize, Serialize};
use serde_json::Value;

const DUMMY: SsParams = SsParams { b: F(1.001), a: F(20.0), q: 100 };
const SMH_KINDS: [Kind; 6] = [Kind::SmhF64, Kind::SmhF32, Kind::SmhF64NoHash, Kind::Smh2U64, Kind::Smh2U64NoHash, Kind::Smh2U32];

#[derive(Clone, Debug, Serialize, Deserialize)]
pub struct Case {
    pub kind: Kind,
    pub m: usize,
    pub only_a: usize,
    pub only_b: usize,
    pub both: usize,
    pub trials: u64,
    pub seed: u64,
}

fn size(max: usize) -> impl Strategy<Value = usize> {
    prop_oneof![1 => Just(0usize), 1 => Just(1usize), 3 => 1usize..40, 4 => (0.0f64..(max as f64).ln()).prop_map(|l| l.exp() as usize)]
}

fn strategy(max_m: usize, max_n: usize, work: u64) -> impl Strategy<Value = Case> {
    (prop::sample::select(SMH_KINDS.to_vec()), prop_oneof![1 => 1usize..6, 3 => crate::gen::m_strategy(1, max_m)], size(max_n), size(max_n), size(max_n), 0u8..6, any::<u64>()).prop_map(move |(kind, m, oa, ob, both, shape, seed)| {
        // strata: general / nested / equal / disjoint / tiny vs huge
        let (only_a, only_b, both) = match shape {
            0 => (0, ob, both.max(1)),           // A nested in B
            1 => (0, 0, both.max(1)),            // equal
            2 => (oa.max(1), ob.max(1), 0),      // disjoint
            3 => (0, ob.max(50), 1),             // single element vs large superset
            _ => (oa, ob, both),
        };
        let (only_a, both) = if only_a + both == 0 { (1, both) } else { (only_a, both) };
        let only_b = if only_b + both == 0 { 1 } else { only_b };
        let per_trial = ((only_a + only_b + 2 * both) as u64) * 4 + 2 * (m as u64);
        // at least 1000 trials, fewer (not below 250) only where 1000 trials would cost more than ten times the budget of a case
        let min_trials = if 1_000 * per_trial > 10 * work { (10 * work / per_trial.max(1)).clamp(250, 1_000) } else { 1_000 };
        let trials = (work / per_trial.max(1)).clamp(min_trials, 400_000);
        Case { kind, m, only_a, only_b, both, trials, seed }
    })
}

fn sample(c: &Case, j: f64, seed: u64, trials: u64) -> Vec<Acc> {
    let mut rng = SmRng::new(seed);
    let mut sa = make(c.kind, c.m, &DUMMY);
    let mut sb = make(c.kind, c.m, &DUMMY);
    let mut accs = vec![Acc::default(); 2];
    let narrow = c.kind == Kind::Smh2U32;
    for _ in 0..trials {
        sa.reinit();
        sb.reinit();
        let base = rng.next_u64();
        let lab = |k: u64, i: usize| {
            let x = splitmix64(base ^ (k << 62) ^ (i as u64).wrapping_mul(0x9E3779B97F4A7C15));
            if narrow {
                x
            } else {
                x
            }
        };
        for i in 0..c.only_a {
            sa.sketch(lab(1, i));
        }
        for i in 0..c.only_b {
            sb.sketch(lab(2, i));
        }
        for i in 0..c.both {
            let x = lab(3, i);
            sa.sketch(x);
            sb.sketch(x);
        }
        let (va, vb) = (sa.views(), sb.views());
        let (xa, xb) = (&va.v[0].1, &vb.v[0].1);
        let eq = xa.iter().zip(xb.iter()).filter(|(x, y)| x == y).count();
        let est = eq as f64 / c.m as f64;
        accs[0].push(est);
        accs[1].push((est - j) * (est - j));
    }
    accs
}

pub fn eval(c: &Case) -> Eval {
    let j = jaccard(c.only_a, c.only_b, c.both);
    let m = c.m as f64;
    let checks = vec![
        Check { name: "mean of the fraction of equal positions vs J".into(), want: Want::Mean { mu: j, var_h: Some(1.05 * j * (1.0 - j) / m + 1e-12) } },
        Check { name: "mean squared error vs J(1-J)/m".into(), want: Want::Upper { bound: j * (1.0 - j) / m, range: j.max(1.0 - j).powi(2) } },
    ];
    let what = format!("{:?} m={} |A\\B|={} |B\\A|={} |A&B|={} J={:.6}", c.kind, c.m, c.only_a, c.only_b, c.both, j);
    let tests = decide_multi(&what, &checks, c.trials, c.seed, &|s, t| sample(c, j, s, t))?;
    let (na, nb) = (c.only_a + c.both, c.only_b + c.both);
    Ok(Report::new(j > 0.0 && j < 1.0)
        .trials(2 * c.trials)
        .resolution(tests[0].tol)
        .class(format!("{:?}", c.kind))
        .class_if(c.m > na.max(nb), "m>n")
        .class_if(na.min(nb) >= 8 * c.m, "n>=8m")
        .class_if(c.both == 0, "disjoint")
        .class_if(c.only_a == 0 && c.only_b == 0, "equal-sets")
        .class_if((c.only_a == 0) != (c.only_b == 0), "nested")
        .class_if(na.max(nb) >= 100 * na.min(nb), "tiny-vs-huge"))
}

// ---------------------------------------------------------------------------------------------------------
// single item: integer parts are a uniform random permutation, fractional parts independent uniform

#[derive(Clone, Debug, Serialize, Deserialize)]
pub struct SingleCase {
    pub kind: Kind,
    pub m: usize,
    pub n: u64,
    pub seed: u64,
}

fn single_strategy(n: u64) -> impl Strategy<Value = SingleCase> {
    (prop::sample::select(vec![Kind::SmhF64, Kind::SmhF32, Kind::SmhF64NoHash]), prop_oneof![6 => 1usize..=5, 4 => 6usize..=64, 2 => 65usize..=300, 2 => prop::sample::select(vec![5000usize, 20_000, 40_000, 49_152, 60_000, 65_537, 70_000, 100_000])], any::<u64>()).prop_map(move |(kind, m, seed)| {
        // f32 sketches of very large m lose the fractional part of r + j altogether: large m only with f64
        let kind = if m > 300 && kind.is_f32() { Kind::SmhF64 } else { kind };
        SingleCase { kind, m, n: if m > 300 { (n / m as u64).max(4_000) } else { (n / m as u64).max(10_000) }, seed }
    })
}

fn lehmer(p: &[usize]) -> usize {
    let m = p.len();
    let mut idx = 0usize;
    for i in 0..m {
        idx = idx * (m - i) + p[i + 1..].iter().filter(|x| **x < p[i]).count();
    }
    idx
}

struct SingleStats {
    perm_counts: Vec<u64>,
    pos_counts: Vec<u64>,
    fracs: Vec<f64>,
    prod: Acc,
    /// dyadic tail bins of the fractional parts over ALL trials: tails[k-1] = count in [0, 2^-k), tails[14+k-1] = count in [1-2^-k, 1), k = 1..14
    tails: Vec<u64>,
    tails_n: u64,
    /// m > 64: position (in 4 equal ranges of 0..m) of the integer parts 0, 1, m/2 and m-1: coarse[j_index * 4 + range]
    coarse: Vec<u64>,
}

fn single_run(c: &SingleCase, seed: u64, n: u64) -> Result<SingleStats, Fail> {
    let m = c.m;
    let mut rng = SmRng::new(seed);
    let mut s = make(c.kind, m, &DUMMY);
    let f32k = c.kind.is_f32();
    let mut st = SingleStats { perm_counts: vec![0; if m <= 5 { factorial(m) } else { 0 }], pos_counts: vec![0; if m <= 64 { m * m } else { 0 }], fracs: Vec::new(), prod: Acc::default(), tails: vec![0; 28], tails_n: 0, coarse: vec![0; if m > 64 { 16 } else { 0 }] };
    let keep_every = ((n * m as u64) / 2_000_000).max(1);
    let mut ip = vec![0usize; m];
    let mut fr = vec![0f64; m];
    let mut kept = 0u64;
    for t in 0..n {
        s.reinit();
        s.sketch(rng.next_u64());
        let v = s.views();
        let bits = &v.v[0].1;
        let mut seen = vec![false; m];
        let mut ambiguous: Vec<usize> = vec![]; // f32 only: integer-valued entries (r + j rounded up to j + 1, or r = 0)
        for k in 0..m {
            let x = if f32k { f32::from_bits(bits[k] as u32) as f64 } else { f64::from_bits(bits[k]) };
            ensure!(x >= 0.0 && x <= m as f64, "{:?} m={}: single item sketch holds {:e} at position {}, outside [0, m]", c.kind, m, x, k);
            let i = x.floor() as usize;
            let f = x - x.floor();
            if f32k && f == 0.0 && i > 0 {
                ambiguous.push(k);
                ip[k] = i;
                fr[k] = 0.0;
                continue;
            }
            ensure!(i < m && !seen[i], "{:?} m={}: integer parts of a single item sketch are not a permutation of 0..m-1: value {:e} at position {} (integer part {} {})", c.kind, m, x, k, i, if i < m { "already taken" } else { "out of range" });
            seen[i] = true;
            ip[k] = i;
            fr[k] = f;
        }
        if !ambiguous.is_empty() {
            // each integer-valued entry v is either integer part v (r = 0) or v - 1 (rounded up): search a consistent assignment
            ensure!(ambiguous.len() <= 16, "{:?} m={}: {} integer-valued entries in one single item sketch", c.kind, m, ambiguous.len());
            let mut found = false;
            for mask in 0u32..(1u32 << ambiguous.len()) {
                let mut s2 = seen.clone();
                let mut ok = true;
                for (b, k) in ambiguous.iter().enumerate() {
                    let i = if mask >> b & 1 == 1 { ip[*k] } else { ip[*k] - 1 };
                    if i >= m || s2[i] {
                        ok = false;
                        break;
                    }
                    s2[i] = true;
                }
                if ok {
                    for (b, k) in ambiguous.iter().enumerate() {
                        if mask >> b & 1 == 0 {
                            ip[*k] -= 1;
                            fr[*k] = 1.0 - 2f64.powi(-24);
                        }
                    }
                    found = true;
                    break;
                }
            }
            ensure!(found, "{:?} m={}: integer parts of a single item sketch are not a permutation of 0..m-1 (even allowing f32 round-up of r + j)", c.kind, m);
        }
        if !st.perm_counts.is_empty() {
            st.perm_counts[lehmer(&ip)] += 1;
        }
        if !st.pos_counts.is_empty() {
            for k in 0..m {
                st.pos_counts[k * m + ip[k]] += 1;
            }
        }
        if !st.coarse.is_empty() {
            let targets = [0usize, 1, m / 2, m - 1];
            for k in 0..m {
                for (ti, tj) in targets.iter().enumerate() {
                    if ip[k] == *tj {
                        st.coarse[ti * 4 + k * 4 / m] += 1;
                    }
                }
            }
        }
        // tails of the fractional parts (f32: only where r + j keeps at least 19 fractional bits)
        for k in 0..m {
            if f32k && ip[k] >= 16 {
                continue;
            }
            st.tails_n += 1;
            let f = fr[k];
            if f < 0.5 {
                let mut kk = 1;
                while kk <= 14 && f < 0.5f64.powi(kk) {
                    st.tails[kk as usize - 1] += 1;
                    kk += 1;
                }
            } else {
                let g = 1.0 - f;
                let mut kk = 1;
                while kk <= 14 && g <= 0.5f64.powi(kk) {
                    st.tails[14 + kk as usize - 1] += 1;
                    kk += 1;
                }
            }
        }
        if t % keep_every == 0 {
            st.fracs.extend_from_slice(&fr);
            kept += 1;
        }
        // independence probe: product of the fractional parts of two positions (expected 1/4)
        if m >= 2 {
            let a = (t as usize) % m;
            let b = (a + 1) % m;
            st.prod.push(fr[a] * fr[b]);
        }
    }
    let _ = kept;
    Ok(st)
}

fn single_judge(c: &SingleCase, st: &mut SingleStats, n: u64) -> Option<String> {
    let m = c.m;
    let cell = |counts: &[u64], prob: f64| -> Option<(usize, f64, f64)> {
        let lc = L + (counts.len().max(1) as f64).ln();
        let tol = bernstein_tol(prob * (1.0 - prob), 1.0, lc, n as f64);
        counts.iter().enumerate().find(|(_, c)| ((**c as f64 / n as f64) - prob).abs() > tol).map(|(i, c)| (i, *c as f64 / n as f64, tol))
    };
    if !st.perm_counts.is_empty() {
        if let Some((i, f, tol)) = cell(&st.perm_counts, 1.0 / st.perm_counts.len() as f64) {
            return Some(format!("permutation of integer parts #{} has frequency {:.6}, expected {:.6} +- {:.6}", i, f, 1.0 / st.perm_counts.len() as f64, tol));
        }
    }
    if !st.pos_counts.is_empty() {
        if let Some((i, f, tol)) = cell(&st.pos_counts, 1.0 / m as f64) {
            return Some(format!("integer part {} at position {} has frequency {:.6}, expected {:.6} +- {:.6}", i % m, i / m, f, 1.0 / m as f64, tol));
        }
    }
    if !st.coarse.is_empty() {
        // the 4 ranges have the exact probabilities (number of positions in the range) / m
        let lc = L + 16f64.ln();
        for (i, cnt) in st.coarse.iter().enumerate() {
            let r = i % 4;
            let npos = (0..m).filter(|k| k * 4 / m == r).count();
            let pr = npos as f64 / m as f64;
            let tol = bernstein_tol(pr * (1.0 - pr), 1.0, lc, n as f64);
            let f = *cnt as f64 / n as f64;
            if (f - pr).abs() > tol {
                let tj = [0usize, 1, m / 2, m - 1][i / 4];
                return Some(format!("integer part {} lies in quarter {} of the positions with frequency {:.6}, expected {:.6} +- {:.6}", tj, r, f, pr, tol));
            }
        }
    }
    let nf = st.fracs.len() as f64;
    let d = ks_distance(&mut st.fracs, |x| x.clamp(0.0, 1.0));
    // f32 values carry at most 24 bits: allow the discretisation of r + j at the largest j
    let disc = if c.kind.is_f32() { (m as f64) * 2f64.powi(-23) } else { 0.0 };
    if d > dkw_tol(L, nf) + disc {
        return Some(format!("pooled fractional parts: Kolmogorov distance to U[0,1) is {:.5}, DKW bound {:.5} (n = {})", d, dkw_tol(L, nf) + disc, nf));
    }
    // dyadic tails [0, 2^-k) and [1 - 2^-k, 1): a window missing at either end of the unit interval is far below the resolution of the
    // sup-distance test but empties the narrow tail bins
    if st.tails_n > 0 {
        let nt = st.tails_n as f64;
        let lt = L + (28f64).ln();
        let disc_t = if c.kind.is_f32() { 2f64.powi(-19) } else { 0.0 };
        for (i, cnt) in st.tails.iter().enumerate() {
            let k = (i % 14) as i32 + 1;
            let pr = 0.5f64.powi(k);
            let tol = bernstein_tol(pr * (1.0 - pr), 1.0, lt, nt) + disc_t;
            let f = *cnt as f64 / nt;
            if (f - pr).abs() > tol {
                let name = if i < 14 { format!("[0, 2^-{})", k) } else { format!("[1 - 2^-{}, 1)", k) };
                return Some(format!("fractional parts: the interval {} holds the fraction {:.6e} of {} values, expected {:.6e} +- {:.3e}", name, f, st.tails_n, pr, tol));
            }
        }
    }
    if m >= 2 {
        let t = mean_test(&st.prod, 0.25, Some(7.0 / 144.0 * 1.01), L);
        if !t.ok {
            return Some(format!("product of the fractional parts of two positions has mean {:.6}, expected 0.25 +- {:.6} (independence)", t.mean, t.tol));
        }
    }
    None
}

pub fn eval_single(c: &SingleCase) -> Eval {
    let mut st = single_run(c, c.seed, c.n)?;
    if let Some(first) = single_judge(c, &mut st, c.n) {
        let mut st2 = single_run(c, splitmix64(c.seed ^ 0xC0FFEE), 4 * c.n)?;
        if let Some(second) = single_judge(c, &mut st2, 4 * c.n) {
            return Err(Fail::new(format!("{:?} m={} single item sketches: {} ; on an independent seed with 4x the items: {}", c.kind, c.m, first, second)));
        }
    }
    Ok(Report::new(c.m >= 2).trials(c.n).class(format!("{:?}", c.kind)).class_if(c.m <= 5, "all-m!-cells").class_if(c.m > 5 && c.m <= 64, "m^2-cells").class_if(c.m == 1, "m=1").class_if(c.m >= 1000, "m>=1000(coarse-position-ranges)"))
}

pub fn run(ctx: &Ctx) {
    ctx.set_rule("(a) proptest generates (sketch type among SuperMinHash f64 / f32 / f64-NoHash and SuperMinHash2 u64-FNV / u64-NoHash / u32-XxHash32, m >= 1, a set triple from the strata general / nested / equal / disjoint / single element vs large superset, trial seed). \
        Per trial fresh random items; statistic = fraction of equal positions. Decisions (delta 1e-14, confirmation with 4x trials): |mean - J| within Bernstein with variance J(1-J)/m; mean of (est-J)^2 <= J(1-J)/m + empirical-Bernstein slack. Non-trivial = 0 < J < 1. \
        (b) single item sketches of SuperMinHash: exact: the integer parts of the m values are a permutation of 0..m-1 (f32: a value equal to j+1 is accepted for integer part j); statistical: all m! permutations (m <= 5) or all m^2 (position, integer part) cells (m <= 64) equally likely (per-cell Bernstein + union bound), for m > 64 (up to 100 000, incl. 49 152, 65 535, 65 537) the integer parts 0, 1, m/2, m-1 fall in each quarter of the positions with the exact frequency, \
        pooled fractional parts uniform (DKW) and, over all values, the 28 dyadic tail intervals [0, 2^-k) and [1 - 2^-k, 1), k = 1..14, hold their exact mass (per-interval Bernstein bound, union over the 28), product of two fractional parts has mean 1/4.");
    super::run_fixed_tier(ctx, replay);
    let (cases, max_m, max_n, work) = ctx.tier.pick((144, 256, 10_000, 16_000_000), (2400, 2048, 300_000, 80_000_000));
    ctx.drive("unbiased", cases, 16, 16, || strategy(max_m, max_n, work), eval);
    let (cases, n) = ctx.tier.pick((48, 8_000_000), (480, 40_000_000));
    ctx.drive("single-item", cases, 16, 12, || single_strategy(n), eval_single);
}

pub fn replay(ctx: &Ctx, sub: &str, case: &Value) -> Result<(), String> {
    if sub == "single-item" {
        let c: SingleCase = parse_case(case)?;
        ctx.run_fixed(sub, &c, eval_single);
    } else {
        let c: Case = parse_case(case)?;
        ctx.run_fixed(sub, &c, eval);
    }
    Ok(())
}
