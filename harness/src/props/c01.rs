//! C01 - ProbMinHash estimates the probability-Jaccard index without bias
use crate::dist::*;
use crate::fw::*;
use crate::gen::*;
use crate::oracle::jp::jp;
use crate::pmh::*;
use crate::stat::Acc;
use crate::util::*;
use probminhash::jaccard::compute_probminhash_jaccard;
use proptest::prelude::*;
use serde::{Deserialize, Serialize};
use serde_json::Value;

#[derive(Clone, Debug, Serialize, Deserialize)]
pub struct Case {
    pub variant: Variant,
    pub hasher: HasherKind,
    pub m: usize,
    /// weights over a common universe; 0 = the item is absent from that set
    pub wa: Vec<F>,
    pub wb: Vec<F>,
    pub entry: u8,
    pub trials: u64,
    pub seed: u64,
}

#[derive(Clone, Debug)]
enum Shape {
    /// every item present with probability 1/2 per side (at least one per side), independent weights on common items
    Independent,
    /// common items get the same weight in both sets
    SameOnCommon,
    /// B = c * A with a non dyadic factor (J_P = 1 up to rounding of the estimate: mean test only)
    Proportional(f64),
    /// B = 2^k * A (estimate must be exactly 1 in every trial)
    Dyadic(i32),
    Identical,
    Disjoint,
}

fn strategy(max_m: usize, max_n: usize, work: u64) -> impl Strategy<Value = Case> {
    let shape = prop_oneof![
        5 => Just(Shape::Independent),
        4 => Just(Shape::SameOnCommon),
        1 => (0.3f64..3.0).prop_map(Shape::Proportional),
        1 => (-20i32..20).prop_map(Shape::Dyadic),
        1 => Just(Shape::Identical),
        1 => Just(Shape::Disjoint),
    ];
    (variant_strategy(), hasher_strategy(), prop_oneof![2 => 1usize..8, 3 => 1usize..=max_n], shape).prop_flat_map(move |(variant, hasher, n, shape)| {
        (prop_oneof![1 => 2usize..5, 3 => crate::gen::m_strategy(2, max_m)], weights(n, false), weights(n, false), prop::collection::vec(0u8..4, n), any::<u8>(), any::<u64>(), prop_oneof![3 => Just(0i32), 1 => -950i32..950]).prop_map(move |(m, w1, w2, member, entry, seed, scale)| {
            // one case in four: both sets multiplied by a common power of two (J_P is unchanged, exactly): weights from 1e-292 to 1e298
            let (w1, w2): (Vec<f64>, Vec<f64>) = (w1.iter().map(|w| w * 2f64.powi(scale)).collect(), w2.iter().map(|w| w * 2f64.powi(scale)).collect());
            let n = w1.len();
            let mut wa = vec![0.0; n];
            let mut wb = vec![0.0; n];
            for i in 0..n {
                match &shape {
                    Shape::Independent | Shape::SameOnCommon => {
                        let (ina, inb) = match member[i] {
                            0 => (true, false),
                            1 => (false, true),
                            _ => (true, true),
                        };
                        if ina {
                            wa[i] = w1[i];
                        }
                        if inb {
                            wb[i] = if matches!(shape, Shape::SameOnCommon) && ina { w1[i] } else { w2[i] };
                        }
                    }
                    Shape::Proportional(c) => {
                        wa[i] = w1[i];
                        wb[i] = w1[i] * c;
                    }
                    Shape::Dyadic(k) => {
                        wa[i] = w1[i];
                        wb[i] = w1[i] * 2f64.powi(*k);
                    }
                    Shape::Identical => {
                        wa[i] = w1[i];
                        wb[i] = w1[i];
                    }
                    Shape::Disjoint => {
                        if i % 2 == 0 || n == 1 {
                            wa[i] = w1[i];
                        } else {
                            wb[i] = w2[i];
                        }
                    }
                }
            }
            // both sets non empty
            if wa.iter().all(|w| *w == 0.0) {
                wa[0] = w1[0];
            }
            if wb.iter().all(|w| *w == 0.0) {
                let j = n - 1;
                wb[j] = w2[j];
            }
            let na = wa.iter().filter(|w| **w > 0.0).count() as u64;
            let nb = wb.iter().filter(|w| **w > 0.0).count() as u64;
            let per_trial = na + nb + 2 * (m as f64 * ((m as f64).ln() + 1.0)) as u64;
            let trials = (work / per_trial.max(1)).clamp(2_000, 1_500_000);
            Case { variant, hasher, m, wa: wa.into_iter().map(F).collect(), wb: wb.into_iter().map(F).collect(), entry, trials, seed }
        })
    })
}

struct Plan {
    checks: Vec<Check>,
    /// for the single-set claim: cell index of every item of A (usize::MAX = not in A)
    cell_of: Vec<usize>,
    ncells: usize,
    jp: f64,
    exact_one: bool,
    exact_zero: bool,
}

fn plan(c: &Case) -> Plan {
    let wa: Vec<f64> = c.wa.iter().map(|w| w.0).collect();
    let wb: Vec<f64> = c.wb.iter().map(|w| w.0).collect();
    let j = jp(&wa, &wb);
    let m = c.m as f64;
    // order of the comparisons: mean, single-set cells, and the mean-squared-error bound LAST (decide_multi reports the first
    // comparison that fails twice, so a reported MSE failure means that every other comparison of the case passed)
    let mut checks = vec![Check { name: "mean of the fraction of equal positions vs J_P".into(), want: Want::Mean { mu: j, var_h: Some(1.05 * j * (1.0 - j) / m + 1e-12) } }];
    // single set A: cells = items with expected hits >= 50, the rest lumped together
    let wsum = crate::oracle::jp::ksum(wa.iter().cloned());
    let mut cell_of = vec![usize::MAX; wa.len()];
    let mut probs: Vec<f64> = vec![];
    let mut rest = 0.0;
    let mut rest_items = vec![];
    for (i, w) in wa.iter().enumerate() {
        if *w <= 0.0 {
            continue;
        }
        let p = w / wsum;
        if p * m * c.trials as f64 >= 50.0 && probs.len() < 24 {
            cell_of[i] = probs.len();
            probs.push(p);
        } else {
            rest += p;
            rest_items.push(i);
        }
    }
    if !rest_items.is_empty() {
        for i in rest_items {
            cell_of[i] = probs.len();
        }
        probs.push(rest);
    }
    for (k, p) in probs.iter().enumerate() {
        checks.push(Check { name: format!("single set: probability that a position holds an item of cell {} (w/sum w = {:.6})", k, p), want: Want::Mean { mu: *p, var_h: None } });
    }
    checks.push(Check { name: "mean squared error vs J_P(1-J_P)/m".into(), want: Want::Upper { bound: j * (1.0 - j) / m, range: j.max(1.0 - j).powi(2) } });
    // exact side conditions
    let same_support = wa.iter().zip(wb.iter()).all(|(a, b)| (*a > 0.0) == (*b > 0.0));
    let ratio: Vec<f64> = wa.iter().zip(wb.iter()).filter(|(a, _)| **a > 0.0).map(|(a, b)| b / a).collect();
    let dyadic = same_support && !ratio.is_empty() && ratio.iter().all(|r| *r == ratio[0]) && ratio[0] > 0.0 && (ratio[0].log2().fract() == 0.0) && wa.iter().zip(wb.iter()).all(|(a, b)| *a == 0.0 || (a * ratio[0] == *b && *b >= 1e-290 && *b <= 1e290));
    let disjoint = wa.iter().zip(wb.iter()).all(|(a, b)| *a == 0.0 || *b == 0.0);
    Plan { ncells: probs.len(), checks, cell_of, jp: j, exact_one: dyadic, exact_zero: disjoint }
}

fn sample(c: &Case, pl: &Plan, seed: u64, trials: u64, exact_fail: &std::cell::RefCell<Option<String>>) -> Vec<Acc> {
    let mut rng = SmRng::new(seed);
    let n = c.wa.len();
    let avail = entries(c.variant);
    let e = avail[c.entry as usize % avail.len()];
    let mut accs = vec![Acc::default(); 2 + pl.ncells];
    let mut labels = vec![0u64; n];
    let mut cell_hits = vec![0u32; pl.ncells];
    for _ in 0..trials {
        for l in labels.iter_mut() {
            *l = rng.next_u64() >> 1; // never the placeholder
        }
        let a: Vec<(u64, f64)> = (0..n).filter(|i| c.wa[*i].0 > 0.0).map(|i| (labels[i], c.wa[i].0)).collect();
        let b: Vec<(u64, f64)> = (0..n).filter(|i| c.wb[*i].0 > 0.0).map(|i| (labels[i], c.wb[i].0)).collect();
        let sa = run_pmh(c.variant, c.hasher, c.m, &[(e, a)]);
        let sb = run_pmh(c.variant, c.hasher, c.m, &[(e, b)]);
        let est = compute_probminhash_jaccard(&sa.sig, &sb.sig);
        if pl.exact_one && est != 1.0 && exact_fail.borrow().is_none() {
            *exact_fail.borrow_mut() = Some(format!("weights of B are those of A times a power of two, yet the estimate is {} instead of exactly 1", est));
        }
        if pl.exact_zero && est != 0.0 && exact_fail.borrow().is_none() {
            *exact_fail.borrow_mut() = Some(format!("the two sets have disjoint supports, yet the estimate is {} instead of exactly 0", est));
        }
        accs[0].push(est);
        accs[1 + pl.ncells].push((est - pl.jp) * (est - pl.jp));
        // single set statistics on A
        cell_hits.iter_mut().for_each(|h| *h = 0);
        for d in &sa.sig {
            // find the item (n is small: linear search over labels)
            if let Some(i) = labels.iter().position(|l| l == d) {
                let cidx = pl.cell_of[i];
                if cidx != usize::MAX {
                    cell_hits[cidx] += 1;
                }
            }
        }
        for k in 0..pl.ncells {
            accs[1 + k].push(cell_hits[k] as f64 / c.m as f64);
        }
    }
    accs
}

pub fn eval(c: &Case) -> Eval {
    ensure!(c.m >= min_m(c.variant) && c.wa.len() == c.wb.len() && !c.wa.is_empty(), "generator error");
    let pl = plan(c);
    let exact_fail = std::cell::RefCell::new(None);
    let what = format!("{:?}/{:?} m={} over {} items (|A|={}, |B|={}), J_P = {:.6}", c.variant, c.hasher, c.m, c.wa.len(), c.wa.iter().filter(|w| w.0 > 0.0).count(), c.wb.iter().filter(|w| w.0 > 0.0).count(), pl.jp);
    let res = decide_multi(&what, &pl.checks, c.trials, c.seed, &|s, t| sample(c, &pl, s, t, &exact_fail));
    if let Some(msg) = exact_fail.borrow().as_ref() {
        return Err(Fail::new(format!("{}: {}", what, msg)));
    }
    let tests = match res {
        Ok(t) => t,
        Err(mut f) => {
            // KNOWN FINDING pmh3-mse-tiny-m: the ProbMinHash3 family (3, 3a, 3a-Sha) puts exactly one point into every unit interval of an
            // item, so the registers of one item are dependent; for tiny m the collision indicators of the positions are positively
            // correlated for some weight profiles and the MSE exceeds J_P(1-J_P)/m (measured: up to x1.22 at m = 2, x1.04 at m = 3,
            // x1.007 at m = 4; an independent simulation of the algorithm as published shows the same). Recognised only when every
            // other comparison of the case passed, for these variants, m <= 6, and an excess below the cap for that m.
            if let Some((i, e1, e2, bound)) = f.stat {
                let cap = match c.m {
                    2 => 1.30,
                    3 => 1.08,
                    4 => 1.03,
                    5 | 6 => 1.02,
                    _ => 0.0,
                };
                let family = matches!(c.variant, Variant::P3 | Variant::P3a | Variant::P3aSha);
                if i == pl.checks.len() - 1 && family && bound > 0.0 && e1 <= cap * bound && e2 <= cap * bound {
                    f.signature = Some("pmh3-mse-tiny-m".into());
                }
            }
            return Err(f);
        }
    };
    let j = pl.jp;
    let na = c.wa.iter().filter(|w| w.0 > 0.0).count();
    let nb = c.wb.iter().filter(|w| w.0 > 0.0).count();
    let wmax = c.wa.iter().chain(c.wb.iter()).map(|w| w.0).fold(0.0, f64::max);
    let wmin = c.wa.iter().chain(c.wb.iter()).map(|w| w.0).filter(|w| *w > 0.0).fold(f64::MAX, f64::min);
    Ok(Report::new(j > 0.0 && j < 1.0 && na >= 2 && nb >= 2 && c.trials as f64 * c.m as f64 * j * (1.0 - j) >= 400.0)
        .trials(2 * c.trials)
        .resolution(tests[0].tol)
        .class(format!("{:?}", c.variant))
        .class(format!("entry-{:?}", entries(c.variant)[c.entry as usize % entries(c.variant).len()]))
        .class_if(pl.exact_one, "dyadic-scaling(exactly-1)")
        .class_if(pl.exact_zero, "disjoint(exactly-0)")
        .class_if(j > 0.0 && j < 1.0, "0<J_P<1")
        .class_if(wmax / wmin >= 1e6, "weight-ratio>=1e6")
        .class_if(wmax < 1e-15, "all-weights<1e-15")
        .class_if(wmin > 1e15, "all-weights>1e15")
        .class_if(c.m > na.max(nb), "m>n")
        .class_if(pl.ncells >= 2, "single-set-cells>=2"))
}

pub fn run(ctx: &Ctx) {
    ctx.set_rule("proptest generates (variant 2/3/3a/3a-Sha, hasher, entry point item-wise / weighted-set iterator / IndexMap / HashMap / integer-weight IndexMap, m >= 2, two weight vectors over a common universe of 1..300 items from the strata equal / small integers / log-uniform 1e-6..1e6 / one item 1e6..1e12 x the rest, \
        with overlap patterns independent / same weight on common items / proportional / dyadic / identical / disjoint; in one case out of four both sets are multiplied by a common power of two 2^k, |k| < 950 (weights from 1e-292 to 1e298; J_P is unchanged); trial seed). Per trial: fresh random item labels, both sets sketched, statistic = compute_probminhash_jaccard. Oracle: exact J_P (compensated summation). \
        Decisions (delta 1e-14 per comparison, confirmation on an independent seed with 4x trials): |mean - J_P| within Bernstein with variance J_P(1-J_P)/m; mean of (est-J_P)^2 <= J_P(1-J_P)/m + empirical-Bernstein slack; for set A the fraction of positions holding an item of each cell (items with >= 50 expected hits, the rest lumped) has mean w/sum(w); \
        per trial exactly 1 for dyadic scaling and exactly 0 for disjoint supports. Non-trivial = 0 < J_P < 1, both sets >= 2 items, T m J_P(1-J_P) >= 400. Trials come from a work budget, never from the clock.");
    super::run_fixed_tier(ctx, replay);
    let (cases, max_m, max_n, work) = ctx.tier.pick((160, 256, 300, 12_000_000), (3200, 1024, 600, 60_000_000));
    ctx.drive("unbiased", cases, 16, 16, || strategy(max_m, max_n, work), eval);
}

pub fn replay(ctx: &Ctx, sub: &str, case: &Value) -> Result<(), String> {
    let c: Case = parse_case(case)?;
    ctx.run_fixed(sub, &c, eval);
    Ok(())
}
