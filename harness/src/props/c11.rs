//! C11 - ProbOrdMinHash2 selects per position independently of sequence order
use crate::fw::*;
use crate::util::*;
#[allow(unused_imports)]
use crate::util::splitmix64;
use fnv::FnvHasher;
use probminhash::probminhasher::probordminhash2::ProbOrdMinHash2;
use proptest::prelude::*;
use serde::{Deserialize, Serialize};
use serde_json::Value;
use std::collections::{BTreeSet, HashMap, HashSet};
use std::hash::Hasher;
use wyhash::WyHash;

#[derive(Clone, Debug, Serialize, Deserialize)]
pub struct Case {
    pub m: u32,
    pub l: usize,
    pub wy: bool,
    /// 0: FNV / WyHash over arbitrary labels; 1..3: the crate's no-op hasher over structured hash values
    /// (1: 0,1,2,...  2: values sharing their low 32 bits  3: neighbours base ^ i of a generated base)
    #[serde(default)]
    pub family: u8,
    #[serde(default)]
    pub base: u64,
    pub seq: Vec<u8>,
    /// sort keys defining the permutation (stable sort; cycled)
    pub perm: Vec<u16>,
    /// unrelated earlier hash_set calls on the same instance
    pub history: Vec<Vec<u8>>,
}

fn strategy(max_len: usize, max_l: usize) -> impl Strategy<Value = Case> {
    (prop_oneof![Just(1u32), Just(2u32), 1u32..20, prop::sample::select(vec![32u32, 64, 128])], prop_oneof![6 => 1usize..=max_l, 1 => (max_l + 1)..=15usize], any::<bool>(), 1u8..10, prop_oneof![3 => Just(0u8), 2 => 1u8..6], any::<u64>()).prop_flat_map(move |(m, l, wy, alpha, family, base)| {
        let seq = move |lo: usize, hi: usize| prop::collection::vec(0u8..alpha, lo..=hi);
        (seq(l, max_len.max(l + 4)), prop::collection::vec(any::<u16>(), 1..=max_len), prop::collection::vec(seq(l, l + 8), 0..3)).prop_map(move |(s, perm, history)| Case { m, l, wy, family, base, seq: s, perm, history })
    })
}

/// the u64 item standing for symbol x. For the no-op hasher families the wanted HASH value is chosen and the item is its
/// byte-swapped form (the no-op hasher reads the native-endian bytes as a big-endian number)
fn label(c: &Case, x: u8) -> u64 {
    let x = x as u64;
    match c.family {
        0 => 0x5EED_0000 + x,
        1 => x.swap_bytes(),
        2 => ((c.base & 0xFFFF_FFFF) | (x << 32) | (x << 48)).swap_bytes(),
        3 => (c.base ^ x).swap_bytes(),
        // hash values whose two 32-bit halves have a constant xor (4) or a constant sum (5): any 32-bit folding of the hash collides
        4 => (((x + 1) << 32) | ((c.base ^ (x + 1)) & 0xFFFF_FFFF)).swap_bytes(),
        _ => (((x + 1) << 32) | ((c.base & 0xFFFF_FFFF).wrapping_sub(x + 1) & 0xFFFF_FFFF)).swap_bytes(),
    }
}

fn permuted(c: &Case) -> Vec<u8> {
    let mut keyed: Vec<(u16, u8)> = c.seq.iter().enumerate().map(|(i, x)| (c.perm[i % c.perm.len()], *x)).collect();
    keyed.sort_by_key(|k| k.0);
    keyed.into_iter().map(|k| k.1).collect()
}

/// (element, occurrence number) of the element at index i of seq
fn pair_at(seq: &[u8], i: usize) -> (u8, usize) {
    (seq[i], seq[..=i].iter().filter(|x| **x == seq[i]).count())
}

fn run_h<H: Hasher + Default>(c: &Case) -> Eval {
    let (m, l) = (c.m as usize, c.l);
    let lab = |s: &[u8]| s.iter().map(|x| label(c, *x)).collect::<Vec<u64>>();
    let mut s = ProbOrdMinHash2::<H>::new(c.m, l);
    for h in &c.history {
        let _ = s.hash_set(&lab(h));
    }
    let n = c.seq.len();
    let sig = s.hash_set(&lab(&c.seq));
    ensure!(sig.len() == m, "signature has {} positions instead of m = {}", sig.len(), m);
    let (indices, _) = s.verif_selected();
    ensure!(indices.len() == m * l, "hook returned {} indices instead of m*l", indices.len());
    // (iv) repeat
    let again = s.hash_set(&lab(&c.seq));
    ensure!(again == sig, "hashing the same sequence twice with one instance gives different signatures");
    // (i) selection shape and value
    let mut dict: HashMap<Vec<u8>, u64> = HashMap::new();
    let mut selected: Vec<BTreeSet<(u8, usize)>> = vec![];
    for p in 0..m {
        // the hook exposes the stored indices; the property only says that the selected elements are READ in sequence order,
        // so the order in which they are stored is not asserted: they are sorted here, and must be distinct
        let mut idx: Vec<usize> = indices[p * l..(p + 1) * l].iter().map(|x| *x as usize).collect();
        idx.sort_unstable();
        for w in idx.windows(2) {
            ensure!(w[0] < w[1], "position {}: the same sequence index is selected twice: {:?}", p, idx);
        }
        ensure!(idx.iter().all(|i| *i < n), "position {}: selected index out of range {:?} (length {})", p, idx, n);
        let sub: Vec<u8> = idx.iter().map(|i| c.seq[*i]).collect();
        let want = match dict.get(&sub) {
            Some(w) => *w,
            None => {
                let d = s.hash_set(&lab(&sub));
                ensure!(d.iter().all(|x| *x == d[0]), "a sequence of exactly l elements must give the same value at every position, got {:x?}", d);
                dict.insert(sub.clone(), d[0]);
                d[0]
            }
        };
        ensure!(sig[p] == want, "position {}: value {:#x} is not the combined hash {:#x} of the l selected elements {:?} (indices {:?}) in sequence order", p, sig[p], want, sub, idx);
        selected.push(idx.iter().map(|i| pair_at(&c.seq, *i)).collect());
    }
    // public-API-only cross check for small inputs: the value of every position is the combined hash of SOME l-subsequence
    let mut full_dict_checked = false;
    if n <= 9 && l <= 3 {
        let mut all: HashSet<u64> = HashSet::new();
        let mut comb: Vec<usize> = (0..l).collect();
        loop {
            let sub: Vec<u8> = comb.iter().map(|i| c.seq[*i]).collect();
            let v = match dict.get(&sub) {
                Some(v) => *v,
                None => {
                    let d = s.hash_set(&lab(&sub))[0];
                    dict.insert(sub, d);
                    d
                }
            };
            all.insert(v);
            // next combination
            let mut i = l;
            while i > 0 && comb[i - 1] == n - l + i - 1 {
                i -= 1;
            }
            if i == 0 {
                break;
            }
            comb[i - 1] += 1;
            for j in i..l {
                comb[j] = comb[j - 1] + 1;
            }
        }
        for p in 0..m {
            ensure!(all.contains(&sig[p]), "position {}: value {:#x} is not the combined hash of any l-subsequence of the input", p, sig[p]);
        }
        full_dict_checked = true;
    }
    // different words of l elements must have different combined hashes (a 64-bit hash: a coincidence has probability 2^-64)
    {
        let mut by_value: HashMap<u64, &Vec<u8>> = HashMap::new();
        for (word, v) in dict.iter() {
            if let Some(other) = by_value.insert(*v, word) {
                ensure!(other == word, "the l-element sequences {:?} and {:?} spell different words but have the same combined hash {:#x}", other, word, v);
            }
        }
    }
    // (ii) permutation: same (element, occurrence) pairs selected at every position
    let pseq = permuted(c);
    let psig = s.hash_set(&lab(&pseq));
    let (pind, _) = s.verif_selected();
    for p in 0..m {
        let got: BTreeSet<(u8, usize)> = pind[p * l..(p + 1) * l].iter().map(|i| pair_at(&pseq, *i as usize)).collect();
        ensure!(got == selected[p], "position {}: the sequence {:?} selects the (element, occurrence) pairs {:?}, its permutation {:?} selects {:?}", p, c.seq, selected[p], pseq, got);
    }
    // (iii) l = 1: signature invariant under permutation (public API only)
    if l == 1 {
        ensure!(psig == sig, "l = 1: signature of {:?} differs from the signature of its permutation {:?}", c.seq, pseq);
    }
    let distinct: HashSet<u8> = c.seq.iter().cloned().collect();
    Ok(Report::new(pseq != c.seq && n > l)
        .class(format!("l={}", l.min(4)))
        .class_if(distinct.len() < n, "repeated-elements")
        .class_if(!c.history.is_empty(), "earlier-calls-on-instance")
        .class_if(full_dict_checked, "full-subsequence-dictionary")
        .class_if(m == 1, "m=1")
        .class_if(c.family > 0, "no-op-hasher-structured-hash-values")
        .class_if(m > n, "m>n"))
}

pub fn eval(c: &Case) -> Eval {
    if c.family > 0 {
        run_h::<probminhash::nohasher::NoHashHasher>(c)
    } else if c.wy {
        run_h::<WyHash>(c)
    } else {
        run_h::<FnvHasher>(c)
    }
}

/// tie hunting by sorting (public API only), l = 1 and one position: hash_set([a, b]) tells which of the two elements has the
/// smaller race value; sorting a block of elements with that comparison makes the closest race values adjacent, and every
/// adjacent pair must give the same signature in both orders (l = 1 signatures are permutation invariant).
#[derive(Clone, Debug, Serialize, Deserialize)]
pub struct HuntCase {
    pub m: u32,
    pub wy: bool,
    pub base: u64,
    pub n: u32,
}

fn hunt_h<H: Hasher + Default>(c: &HuntCase) -> Eval {
    let mut s = ProbOrdMinHash2::<H>::new(c.m, 1);
    let mut items: Vec<u64> = (0..c.n as u64).map(|i| splitmix64(c.base.wrapping_add(i))).collect();
    items.sort_unstable();
    items.dedup();
    let mut single: HashMap<u64, u64> = HashMap::new();
    for x in &items {
        let v = s.hash_set(&[*x])[0];
        single.insert(*x, v);
    }
    let mut first_wins = |x: u64, y: u64| -> bool { s.hash_set(&[x, y])[0] == single[&x] };
    let n = items.len();
    let mut buf = items.clone();
    let mut width = 1;
    while width < n {
        let mut i = 0;
        while i < n {
            let mid = (i + width).min(n);
            let hi = (i + 2 * width).min(n);
            let (mut a, mut b, mut k) = (i, mid, i);
            while a < mid && b < hi {
                if first_wins(items[a], items[b]) {
                    buf[k] = items[a];
                    a += 1;
                } else {
                    buf[k] = items[b];
                    b += 1;
                }
                k += 1;
            }
            while a < mid {
                buf[k] = items[a];
                a += 1;
                k += 1;
            }
            while b < hi {
                buf[k] = items[b];
                b += 1;
                k += 1;
            }
            i += 2 * width;
        }
        std::mem::swap(&mut items, &mut buf);
        width *= 2;
    }
    let mut t = ProbOrdMinHash2::<H>::new(c.m, 1);
    for w in items.windows(2) {
        let ab = t.hash_set(&[w[0], w[1]]);
        let ba = t.hash_set(&[w[1], w[0]]);
        ensure!(ab == ba, "ProbOrdMinHash2 m={} l=1: the elements {} and {} (neighbours in the order of their race values at position 0, found by sorting {} elements with two-element sequences) give different signatures in the two orders", c.m, w[0], w[1], n);
    }
    Ok(Report::new(n >= 2).class("tie-hunt"))
}

pub fn eval_hunt(c: &HuntCase) -> Eval {
    if c.wy {
        hunt_h::<WyHash>(c)
    } else {
        hunt_h::<FnvHasher>(c)
    }
}

pub fn run(ctx: &Ctx) {
    ctx.set_rule("proptest generates (m, l in 1..4 (thorough ..8) and in one case out of seven up to 15 (the largest accepted value), hasher FNV/WyHash, a sequence of length l..12 (thorough ..30) over an alphabet of 1..9 symbols so that repeats are common, a permutation, 0..2 unrelated earlier hash_set calls). \
        Oracles: (i) per position the l selected indices (guarded hook) are in range and strictly ascending and the position's value equals the dictionary value of exactly those l elements, the dictionary being built through the public API (hash_set of the l-element sequence); \
        for short inputs every position's value must be the combined hash of SOME l-subsequence (public API only); (ii) the set of (element, occurrence-number) pairs selected per position is the same for the sequence and its permutation; (iii) for l = 1 the signature is identical under the permutation; \
        (iv) a second call with the same data gives the same signature. Non-trivial = the permutation changes the sequence and it is longer than l.");
    super::run_fixed_tier(ctx, replay);
    let (cases, max_len, max_l) = ctx.tier.pick((400_000, 12, 4), (4_000_000, 30, 8));
    ctx.drive("selection", cases, 16, 3000, || strategy(max_len, max_l), eval);
    let (cases, n) = ctx.tier.pick((32, 1u32 << 16), (320, 1u32 << 18));
    ctx.drive("tie-hunt", cases, 16, 6, move || (prop::sample::select(vec![1u32, 1, 2, 4]), any::<bool>(), any::<u64>()).prop_map(move |(m, wy, base)| HuntCase { m, wy, base, n }), eval_hunt);
}

pub fn replay(ctx: &Ctx, sub: &str, case: &Value) -> Result<(), String> {
    if sub == "tie-hunt" {
        let c: HuntCase = parse_case(case)?;
        ctx.run_fixed(sub, &c, eval_hunt);
    } else {
        let c: Case = parse_case(case)?;
        ctx.run_fixed(sub, &c, eval);
    }
    Ok(())
}

