//! C10 - ProbOrdMinHash2 collision probability equals the order-min-hash similarity
use crate::dist::*;
use crate::fw::*;
use crate::oracle::omh::Omh;
use crate::stat::Acc;
use crate::util::*;
use fnv::FnvHasher;
use probminhash::probminhasher::probordminhash2::ProbOrdMinHash2;
use proptest::prelude::*;
use serde::{Deserialize, Serialize};
use serde_json::Value;
use std::collections::HashSet;
use std::hash::Hasher;
use wyhash::WyHash;

#[derive(Clone, Debug, Serialize, Deserialize)]
pub struct Case {
    pub m: u32,
    pub l: usize,
    pub wy: bool,
    /// 0: FNV / WyHash over fresh random labels; 1: the crate's no-op hasher over hash values base ^ i (neighbours of a fresh
    /// random base per trial); 2: no-op hasher over hash values i * 2^32 + low 32 bits of the base
    #[serde(default)]
    pub family: u8,
    pub s1: Vec<u32>,
    pub s2: Vec<u32>,
    pub trials: u64,
    pub seed: u64,
}

#[derive(Clone, Debug)]
enum Derive {
    Identical,
    Shift(usize),
    Edit(u16, u32),
    Delete(u16),
    Insert(u16, u32),
    Disjoint,
    CommonPrefix(Vec<u32>),
    Independent(Vec<u32>),
    Reverse,
}

fn derive(s1: &[u32], d: &Derive, l: usize) -> Vec<u32> {
    let n = s1.len();
    let mut s2: Vec<u32> = match d {
        Derive::Identical => s1.to_vec(),
        Derive::Shift(k) => {
            let k = k % n.max(1);
            s1[k..].iter().chain(s1[..k].iter()).cloned().collect()
        }
        Derive::Edit(p, s) => {
            let mut v = s1.to_vec();
            let i = idx16(*p, n);
            v[i] = *s;
            v
        }
        Derive::Delete(p) => {
            let mut v = s1.to_vec();
            if n > l {
                v.remove(idx16(*p, n));
            }
            v
        }
        Derive::Insert(p, s) => {
            let mut v = s1.to_vec();
            v.insert(idx16(*p, n + 1), *s);
            v
        }
        Derive::Disjoint => s1.iter().map(|x| x + 100).collect(),
        Derive::CommonPrefix(tail) => {
            let keep = n / 2;
            s1[..keep].iter().chain(tail.iter()).cloned().collect()
        }
        Derive::Independent(v) => v.clone(),
        Derive::Reverse => s1.iter().rev().cloned().collect(),
    };
    while s2.len() < l {
        s2.push(s1[s2.len() % n]);
    }
    s2
}

fn strategy(max_len: usize, min_l: usize, max_l: usize, trials: u64) -> impl Strategy<Value = Case> {
    // for long selections only small edits leave a collision probability strictly between 0 and 1
    let small_edits = min_l > 1;
    (prop::sample::select(vec![1u32, 2, 4, 7, 32, 128]), min_l..=max_l, any::<bool>(), 1u32..9, prop_oneof![3 => Just(0u8), 1 => Just(1u8), 1 => Just(2u8), 1 => Just(3u8), 1 => Just(4u8)]).prop_flat_map(move |(m, l, wy, alpha, family)| {
        let hi = max_len.max(l + 1);
        let runs = (prop::collection::vec((0u32..alpha, 1usize..4), 1..6)).prop_map(|rs| rs.into_iter().flat_map(|(s, k)| std::iter::repeat(s).take(k)).collect::<Vec<u32>>());
        let base = prop_oneof![3 => prop::collection::vec(0u32..alpha, l..=hi), 1 => runs].prop_map(move |mut v: Vec<u32>| {
            while v.len() < l {
                v.push(v.len() as u32 % alpha.max(1));
            }
            v.truncate(hi);
            v
        });
        let der = prop_oneof![
            1 => Just(Derive::Identical),
            2 => (1usize..6).prop_map(Derive::Shift),
            3 => (any::<u16>(), 0u32..alpha + 1).prop_map(|(p, s)| Derive::Edit(p, s)),
            2 => any::<u16>().prop_map(Derive::Delete),
            2 => (any::<u16>(), 0u32..alpha + 1).prop_map(|(p, s)| Derive::Insert(p, s)),
            1 => Just(Derive::Disjoint),
            2 => prop::collection::vec(0u32..alpha + 1, 1..8).prop_map(Derive::CommonPrefix),
            2 => prop::collection::vec(0u32..alpha, l..=hi).prop_map(Derive::Independent),
            1 => Just(Derive::Reverse),
        ]
        .prop_map(move |d| match d {
            Derive::Disjoint | Derive::Independent(_) | Derive::Reverse if small_edits => Derive::Edit(7, 0),
            other => other,
        });
        (base, der, any::<u64>()).prop_map(move |(s1, d, seed)| {
            let mut s2 = derive(&s1, &d, l);
            s2.truncate(hi.max(l));
            Case { m, l, wy, family, s1, s2, trials, seed }
        })
    })
}

/// T trials: fresh random labels per trial, one instance hashes both sequences; statistic = fraction of equal positions
fn sample<H: Hasher + Default>(c: &Case, seed: u64, trials: u64) -> Acc {
    let mut rng = SmRng::new(seed);
    let mut acc = Acc::default();
    let mut h = ProbOrdMinHash2::<H>::new(c.m, c.l);
    let nsym = c.s1.iter().chain(c.s2.iter()).max().map_or(0, |x| *x as usize) + 1;
    let mut labels = vec![0u64; nsym];
    let mut d1 = vec![0u64; c.s1.len()];
    let mut d2 = vec![0u64; c.s2.len()];
    for _ in 0..trials {
        let base = rng.next_u64();
        for (i, lab) in labels.iter_mut().enumerate() {
            *lab = match c.family {
                0 => rng.next_u64(),
                1 => (base ^ i as u64).swap_bytes(),
                2 => ((base & 0xFFFF_FFFF) | ((i as u64 + 1) << 32)).swap_bytes(),
                // hash values whose two 32-bit halves have a constant xor (3) or a constant sum (4): any 32-bit folding of the hash collides
                3 => (((i as u64 + 1) << 32) | ((base ^ (i as u64 + 1)) & 0xFFFF_FFFF)).swap_bytes(),
                _ => (((i as u64 + 1) << 32) | ((base & 0xFFFF_FFFF).wrapping_sub(i as u64 + 1) & 0xFFFF_FFFF)).swap_bytes(),
            };
        }
        for (i, x) in c.s1.iter().enumerate() {
            d1[i] = labels[*x as usize];
        }
        for (i, x) in c.s2.iter().enumerate() {
            d2[i] = labels[*x as usize];
        }
        let a = h.hash_set(&d1);
        let b = h.hash_set(&d2);
        let eq = a.iter().zip(b.iter()).filter(|(x, y)| x == y).count();
        acc.push(eq as f64 / c.m as f64);
    }
    acc
}

pub fn eval(c: &Case) -> Eval {
    ensure!(c.s1.len() >= c.l && c.s2.len() >= c.l, "generator error: sequence shorter than l");
    let mut o = Omh::new(&c.s1, &c.s2, c.l, 3_000_000);
    let (p, exact, extra_tol) = match o.probability() {
        Some(p) => (p, true, 0.0),
        None => {
            // Monte-Carlo evaluation of the definition; its own Bernstein error is added to the tolerance
            let n = 4_000_000u64;
            let est = o.monte_carlo(n, mix(&[c.seed, 0x0114]));
            (est, false, crate::stat::bernstein_tol(0.25, 1.0, L, n as f64))
        }
    };
    let f = |seed: u64, t: u64| {
        if c.family > 0 {
            sample::<probminhash::nohasher::NoHashHasher>(c, seed, t)
        } else if c.wy {
            sample::<WyHash>(c, seed, t)
        } else {
            sample::<FnvHasher>(c, seed, t)
        }
    };
    let what = format!("ProbOrdMinHash2 m={} l={} s1={:?} s2={:?}", c.m, c.l, c.s1, c.s2);
    let t = if exact {
        decide_mean(&what, p, None, c.trials, c.seed, &f)?
    } else {
        // target known only up to extra_tol
        let a = f(c.seed, c.trials);
        let t = crate::stat::mean_test(&a, p, None, L);
        if (t.mean - p).abs() > t.tol + extra_tol {
            let a2 = f(splitmix64(c.seed ^ 0xC0FFEE), 4 * c.trials);
            let t2 = crate::stat::mean_test(&a2, p, None, L);
            ensure!((t2.mean - p).abs() <= t2.tol + extra_tol, "{}: empirical mean {:.5} / {:.5} vs Monte-Carlo reference {:.5} (tolerance {:.5})", what, t.mean, t2.mean, p, t2.tol + extra_tol);
        }
        t
    };
    let rep1 = c.s1.iter().collect::<HashSet<_>>().len() < c.s1.len();
    let rep2 = c.s2.iter().collect::<HashSet<_>>().len() < c.s2.len();
    Ok(Report::new(p > 0.0 && p < 1.0)
        .trials(c.trials * 2)
        .resolution(t.tol + extra_tol)
        .class_if(rep1 || rep2, "repeated-elements")
        .class_if(c.l > 1, "l>1")
        .class_if(c.m > 1, "m>1")
        .class_if(p == 0.0, "p=0")
        .class_if(p == 1.0, "p=1")
        .class_if(!exact, "monte-carlo-reference")
        .class_if(c.family > 0, "no-op-hasher-neighbouring-hash-values")
        .class(format!("oracle-states<=10^{}", (o.states.max(1) as f64).log10().ceil() as u32)))
}

// ------------------------------------------------------------------------------------------------------------
// very long runs of one element (occurrence numbers beyond 2^16), l = 1, closed-form oracle

#[derive(Clone, Debug, Serialize, Deserialize)]
pub struct RunsCase {
    pub m: u32,
    pub wy: bool,
    /// per symbol: number of occurrences in the first and in the second sequence (runs, in symbol order)
    pub counts: Vec<(u32, u32)>,
    pub trials: u64,
    pub seed: u64,
}

/// l = 1: the lowest ranked pair of the union decides. If it belongs to both sequences they collide; if it belongs only to
/// the longer run of element e, the other sequence's lowest pair is uniform over its own pairs and must also be e.
fn runs_probability(counts: &[(u32, u32)]) -> f64 {
    let u: f64 = counts.iter().map(|c| c.0.max(c.1) as f64).sum();
    let (n1, n2): (f64, f64) = (counts.iter().map(|c| c.0 as f64).sum(), counts.iter().map(|c| c.1 as f64).sum());
    let mut p = 0.0;
    for (c1, c2) in counts {
        let (c1, c2) = (*c1 as f64, *c2 as f64);
        p += c1.min(c2) / u;
        if c1 > c2 {
            p += (c1 - c2) / u * (c2 / n2);
        } else if c2 > c1 {
            p += (c2 - c1) / u * (c1 / n1);
        }
    }
    p
}

/// One element repeated n times, l = 1: the ranking of the n (element, occurrence) pairs is uniform, so the occurrence selected
/// at a position is uniform on 0..n. The selected index of position 0 is collected over many relabelled trials and
/// compared with the uniform law (DKW). Occurrence numbers that alias (e.g. modulo 2^16) concentrate the selection.
fn runs_indices<H: Hasher + Default>(c: &RunsCase, seed: u64, trials: u64) -> Vec<f64> {
    let mut rng = SmRng::new(seed);
    let mut h = ProbOrdMinHash2::<H>::new(c.m, 1);
    let n = c.counts[0].0 as usize;
    let mut out = Vec::with_capacity(trials as usize);
    let mut s1 = vec![0u64; n];
    for _ in 0..trials {
        let lab = rng.next_u64();
        s1.iter_mut().for_each(|x| *x = lab);
        let _ = h.hash_set(&s1);
        let (idx, _) = h.verif_selected();
        out.push((idx[0] as f64 + 0.5) / n as f64);
    }
    out
}

pub fn eval_runs(c: &RunsCase) -> Eval {
    ensure!(!c.counts.is_empty() && c.counts[0].0 >= 2, "generator error");
    let f = |seed: u64, t: u64| if c.wy { runs_indices::<WyHash>(c, seed, t) } else { runs_indices::<FnvHasher>(c, seed, t) };
    let mut xs = f(c.seed, c.trials);
    let d1 = crate::stat::ks_distance(&mut xs, |x| x.clamp(0.0, 1.0));
    let tol = |t: u64| crate::stat::dkw_tol(L, t as f64);
    if d1 > tol(c.trials) {
        let mut ys = f(splitmix64(c.seed ^ 0xC0FFEE), 4 * c.trials);
        let d2 = crate::stat::ks_distance(&mut ys, |x| x.clamp(0.0, 1.0));
        ensure!(d2 <= tol(4 * c.trials), "ProbOrdMinHash2 m={} l=1 on one element repeated {} times: the occurrence selected at position 0 is not uniform over the {} occurrences: Kolmogorov distance {:.3} (T = {}) and {:.3} on an independent seed (T = {}), DKW bounds {:.3} / {:.3}", c.m, c.counts[0].0, c.counts[0].0, d1, c.trials, d2, 4 * c.trials, tol(c.trials), tol(4 * c.trials));
    }
    Ok(Report::new(true).trials(c.trials).resolution(tol(c.trials)).class_if(c.counts[0].0 > 65536, "an-element-occurs>65536-times"))
}

fn runs_strategy(trials: u64) -> impl Strategy<Value = RunsCase> {
    let n = prop_oneof![(0u32..40).prop_map(|d| 131_072 + d), (0u32..40).prop_map(|d| 131_072 - d), 70_000u32..200_000];
    (prop::sample::select(vec![1u32, 2, 8]), any::<bool>(), n, any::<u64>()).prop_map(move |(m, wy, n, seed)| RunsCase { m, wy, counts: vec![(n, 0)], trials, seed })
}

pub fn run(ctx: &Ctx) {
    ctx.set_rule("proptest generates (m in {1,2,4,7,32,128}, l (sub-check collision: 1..5 (12); sub-check large-l: 6..15, the largest value the constructor accepts, on sequences of up to 18 (20) elements), hasher FNV/WyHash, a base sequence over 1..8 symbols (random or built from runs) and a second sequence derived from it: identical | rotated | one substitution | deletion | insertion | disjoint alphabet | common prefix | independent | reversed, a trial seed). \
        Per trial the symbols are relabelled with fresh random u64 labels and one instance hashes both sequences; statistic = fraction of equal positions. Oracle: exact collision probability of the order-min-hash definition by memoised recursion over the next lowest-ranked relevant (element, occurrence) pair \
        (Monte-Carlo of the definition beyond 3e6 states, its error added); decision: Bernstein / empirical-Bernstein bound with per-comparison delta 1e-14, failures re-tested on an independent seed with 4x trials. Non-trivial = 0 < p < 1. Distinct = distinct serialised case.");
    ctx.assume("positions of one signature are correlated, so only the generic variance bound p(1-p) and the empirical variance are used");
    super::run_fixed_tier(ctx, replay);
    let (cases, max_len, max_l, trials) = ctx.tier.pick((192, 14, 5, 12_000), (2400, 30, 12, 40_000));
    ctx.drive("collision", cases, 16, 24, || strategy(max_len, 1, max_l, trials), eval);
    // long selections: l from 6 to 15 (the constructor requires l < 16) on sequences of up to 18 (20) elements
    let (cases, max_len, max_l, trials) = ctx.tier.pick((48, 18, 15, 8_000), (240, 20, 15, 20_000));
    ctx.drive("large-l", cases, 16, 24, || strategy(max_len, 6, max_l, trials), eval);
    // very long runs of one element: occurrence numbers beyond 2^16; the selected occurrence must be uniform
    let (cases, trials) = ctx.tier.pick((6, 260), (64, 1000));
    ctx.drive("long-runs", cases, 6, 2, move || runs_strategy(trials), eval_runs);
}

pub fn replay(ctx: &Ctx, sub: &str, case: &Value) -> Result<(), String> {
    if sub == "long-runs" {
        let c: RunsCase = parse_case(case)?;
        ctx.run_fixed(sub, &c, eval_runs);
    } else {
        let c: Case = parse_case(case)?;
        ctx.run_fixed(sub, &c, eval);
    }
    Ok(())
}
