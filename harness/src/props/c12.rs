//! C12 - a sketch is a pure function of parameters, hasher and input (differential over execution contexts)
use crate::fw::*;
use crate::spec::*;
use proptest::strategy::{Strategy, ValueTree};
use serde_json::{json, Value};
use std::sync::{Arc, Barrier};

const THREADS: usize = 16;

fn describe_diff(a: &[u64], b: &[u64]) -> String {
    if a.len() != b.len() {
        return format!("lengths {} vs {}", a.len(), b.len());
    }
    match (0..a.len()).find(|i| a[*i] != b[*i]) {
        Some(i) => format!("word {}: {:#x} vs {:#x}", i, a[i], b[i]),
        None => "identical".into(),
    }
}

/// in-process: two instances in this thread, then THREADS instances started together in THREADS threads
pub fn eval(s: &Spec) -> Eval {
    let a = s.compute();
    let b = s.compute();
    ensure!(a == b, "{}: two instances in one thread give different sketches for the same input ({})", s.type_name(), describe_diff(&a, &b));
    // an instance with an earlier, unrelated use that was reset (reinit / reset / self-clearing hash_set) is still "a sketcher constructed with the same parameters"
    let r = s.compute_with_history(true);
    ensure!(a == r, "{}: an instance that was used before and reset gives a different sketch than a new instance ({})", s.type_name(), describe_diff(&a, &r));
    let barrier = Arc::new(Barrier::new(THREADS));
    let outs: Vec<Vec<u64>> = std::thread::scope(|sc| {
        let hs: Vec<_> = (0..THREADS)
            .map(|t| {
                let barrier = barrier.clone();
                sc.spawn(move || {
                    barrier.wait();
                    s.compute_with_history(t % 4 == 3)
                })
            })
            .collect();
        hs.into_iter().map(|h| h.join().unwrap_or_default()).collect()
    });
    for (t, o) in outs.iter().enumerate() {
        ensure!(*o == a, "{}: instance running in thread {} (of {} concurrent) gives a different sketch than the main thread ({})", s.type_name(), t, THREADS, describe_diff(&a, o));
    }
    Ok(Report::new(s.input_len() >= 2).class(s.type_name()).class("in-process+threads"))
}

/// std-HashMap entry points only: eight new instances in this thread, each fed its own new map (own RandomState, own iteration order)
pub fn eval_hashmap(s: &Spec) -> Eval {
    let a = s.compute();
    for i in 1..8 {
        let b = if i % 4 == 3 { s.compute_with_history(true) } else { s.compute() };
        ensure!(a == b, "{}: instance {} (same input through a new std HashMap, i.e. another iteration order) gives a different sketch than the first ({})", s.type_name(), i, describe_diff(&a, &b));
    }
    Ok(Report::new(s.input_len() >= 2).class(s.type_name()).class("hashmap-entry-point"))
}

/// libFuzzer entry: single-threaded contexts only (two new instances, a recycled instance, and for the std-HashMap entry points
/// further instances with their own iteration order)
pub fn eval_fuzz(s: &Spec) -> Eval {
    let a = s.compute();
    let b = s.compute();
    ensure!(a == b, "{}: two instances in one thread give different sketches for the same input ({})", s.type_name(), describe_diff(&a, &b));
    let r = s.compute_with_history(true);
    ensure!(a == r, "{}: an instance that was used before and reset gives a different sketch than a new instance ({})", s.type_name(), describe_diff(&a, &r));
    let c = s.compute();
    ensure!(a == c, "{}: a third instance gives a different sketch ({})", s.type_name(), describe_diff(&a, &c));
    Ok(Report::new(s.input_len() >= 2))
}

/// child side: compute every spec of the batch
pub fn child(inp: &Value) -> Value {
    let specs: Vec<Spec> = serde_json::from_value(inp["specs"].clone()).unwrap_or_default();
    let outs: Vec<Vec<u64>> = specs.iter().map(|s| s.compute()).collect();
    json!({ "outs": outs })
}

/// cross-process: a batch of specs is computed here and in `nproc` freshly started child processes
fn cross_process(ctx: &Ctx, specs: &[Spec], nproc: usize, sub: &str) {
    let here: Vec<Vec<u64>> = specs.iter().map(|s| s.compute()).collect();
    let input = json!({ "specs": specs });
    for p in 0..nproc {
        // the first child runs with the log level of the `log` facade raised to Trace
        let env: &[(&str, &str)] = if p == 0 { &[("PMH_VERIF_LOG", "trace")] } else { &[] };
        match run_child("c12", &input, std::time::Duration::from_secs(600), env) {
            ChildOutcome::Done(v) => {
                let outs: Vec<Vec<u64>> = serde_json::from_value(v["outs"].clone()).unwrap_or_default();
                if outs.len() != specs.len() {
                    ctx.infra("child returned a truncated batch");
                    return;
                }
                for (i, s) in specs.iter().enumerate() {
                    if outs[i] != here[i] {
                        ctx.violation(sub, s, &format!("{}: process {} (freshly started) gives a different sketch than this process ({})", s.type_name(), p, describe_diff(&here[i], &outs[i])));
                        return;
                    }
                }
            }
            ChildOutcome::Crashed(w, e) => {
                ctx.infra(format!("C12 child crashed ({}): {}", w, e));
                return;
            }
            ChildOutcome::Timeout => {
                ctx.infra("C12 child timed out");
                return;
            }
            ChildOutcome::Infra(e) => {
                ctx.infra(e);
                return;
            }
        }
    }
    // one more process: the same specs computed by the probe linked against the crate built WITHOUT the verification feature
    // (the hooks are additive accessors: no sketch may depend on them)
    let exe = verif_root().join("nohooks/target/release/pmh-nohooks");
    match run_child_exe(&exe, "c12", &input, std::time::Duration::from_secs(600), &[]) {
        ChildOutcome::Done(v) => {
            let outs: Vec<Vec<u64>> = serde_json::from_value(v["outs"].clone()).unwrap_or_default();
            if outs.len() != specs.len() {
                ctx.infra("hooks-off child returned a truncated batch");
                return;
            }
            let recycled: Vec<Vec<u64>> = serde_json::from_value(v["recycled"].clone()).unwrap_or_default();
            for (i, s) in specs.iter().enumerate() {
                if outs[i] != here[i] {
                    ctx.violation(sub, s, &format!("{}: the crate built without the verif-hooks feature gives a different sketch than the crate built with it ({})", s.type_name(), describe_diff(&here[i], &outs[i])));
                    return;
                }
                if recycled.len() == specs.len() && recycled[i] != here[i] {
                    ctx.violation(sub, s, &format!("{}: built without the verif-hooks feature, an instance that was used before and reset gives a different sketch than a new instance of the build with the feature ({})", s.type_name(), describe_diff(&here[i], &recycled[i])));
                    return;
                }
            }
        }
        ChildOutcome::Crashed(w, e) => {
            ctx.infra(format!("C12 hooks-off child crashed ({}): {}", w, e));
            return;
        }
        ChildOutcome::Timeout => {
            ctx.infra("C12 hooks-off child timed out");
            return;
        }
        ChildOutcome::Infra(e) => {
            ctx.infra(e);
            return;
        }
    }
    for s in specs {
        ctx.record(sub, s, &Report::new(s.input_len() >= 2).class(s.type_name()).class(format!("{}-child-processes+hooks-off-build", nproc)), true);
    }
}

pub fn run(ctx: &Ctx) {
    ctx.set_rule("proptest generates a computation spec for every sketcher type of the crate (ProbMinHash2/3/3a/3aSha over u64 and String keys with every entry point incl. std HashMap, SuperMinHash f64/f32, SuperMinHash2 u64/u32, SetSketch u16/u32, \
        OptDens/RevOptDens f64/f32, ProbOrdMinHash2 with FNV/WyHash) with parameters and input. Oracle: the bit pattern of all sketch views is identical for (i) two new instances in one thread and an instance that was used before and reset, (ii) 16 new instances started together behind a barrier in 16 threads, \
        (iii) new instances in freshly started child processes (new address space layout, new RandomState keys, new ThreadRng; the first child runs with the log level raised to Trace, so that every log statement's arguments are evaluated; one more child is a probe linked against the crate built WITHOUT the verif-hooks feature); sub-check hashmap-instances: the std-HashMap entry points only, eight instances each fed a new map of the same content (own RandomState, own iteration order). Non-trivial = input of at least 2 items. Distinct = distinct serialised spec.");
    ctx.assume("the harness does not own the scheduler: thread interleavings are sampled; the sketchers share no mutable state, what is hunted is hidden per-instance / per-thread / per-process input");
    super::run_fixed_tier(ctx, replay);
    let (cases, max_m, max_n) = ctx.tier.pick((6_000, 128, 300), (120_000, 512, 2000));
    // threads are spawned inside each case, so only a few shards
    ctx.drive("contexts", cases, 4, 300, || spec_strategy(max_m, max_n), eval);
    let cases = ctx.tier.pick(30_000, 600_000);
    ctx.drive("hashmap-instances", cases, 16, 300, || hashmap_spec_strategy(max_m, max_n), eval_hashmap);
    // cross-process batches: specs drawn from the same strategy with a seeded runner
    let (nspecs, nproc) = ctx.tier.pick((400, 3), (6000, 6));
    let mut runner = proptest::test_runner::TestRunner::new_with_rng(
        proptest::test_runner::Config::default(),
        proptest::test_runner::TestRng::from_seed(proptest::test_runner::RngAlgorithm::ChaCha, &{
            let mut b = [0u8; 32];
            b[..8].copy_from_slice(&crate::util::mix(&[ctx.seed, 0xC12]).to_le_bytes());
            b
        }),
    );
    let strat = spec_strategy(max_m, max_n);
    let specs: Vec<Spec> = (0..nspecs).filter_map(|_| strat.new_tree(&mut runner).ok().map(|t| t.current())).collect();
    for batch in specs.chunks(200) {
        cross_process(ctx, batch, nproc, "processes");
        if ctx.n_violations() > 0 {
            break;
        }
    }
}

pub fn replay(ctx: &Ctx, sub: &str, case: &Value) -> Result<(), String> {
    let s: Spec = parse_case(case)?;
    if sub == "hashmap-instances" {
        ctx.run_fixed(sub, &s, eval_hashmap);
    } else if sub == "processes" {
        cross_process(ctx, &[s], 3, sub);
    } else {
        ctx.run_fixed(sub, &s, eval);
    }
    Ok(())
}
