//! C04 - unweighted sketches have set semantics
use crate::fw::*;
use crate::gen::*;
use crate::sk::*;
use crate::util::*;
use proptest::prelude::*;
use serde::{Deserialize, Serialize};
use serde_json::Value;
use std::collections::HashSet;

#[derive(Clone, Debug, Serialize, Deserialize)]
pub struct Case {
    pub kind: Kind,
    pub m: usize,
    pub ss: SsParams,
    pub items: Vec<u64>,
    pub pa: Presentation,
    pub pb: Presentation,
    /// an item of the set that presentation B streams first (edge labels: hash values 0, all-ones, ... under the no-op hasher)
    #[serde(default)]
    pub lead: Option<u64>,
}

const EDGE_LABELS: [u64; 10] = [0, u64::MAX, 1, u64::MAX - 1, 0x0100_0000_0000_0000, 0xFEFF_FFFF_FFFF_FFFF, 2, 0x0200_0000_0000_0000, u32::MAX as u64, 1 << 63];

fn strategy(max_m: usize, max_n: usize) -> impl Strategy<Value = Case> {
    (kind_strategy(), crate::gen::m_strategy(1, max_m), 0u8..10).prop_flat_map(move |(kind, m, shape)| {
        // SetSketch: a stratum with n >> m ln m so that the lower bound becomes active; others: n around / above m
        let nmax = match shape {
            0..=2 => (8 * m).clamp(2, max_n),
            3..=5 => ((m as f64 * ((m as f64).ln() + 3.0) * 3.0) as usize).clamp(4, max_n),
            _ => max_n,
        };
        let nmin = if shape <= 2 { 1 } else { nmax / 4 + 1 };
        (ss_params(m), item_set(nmin, nmax)).prop_flat_map(move |(ss, items)| {
            let n = items.len();
            (presentation(n), presentation(n), 0u8..10, 0usize..EDGE_LABELS.len()).prop_map(move |(pa, pb, lead_sel, li)| {
                let mut items = items.clone();
                // an edge label leads presentation B in 60 % of the no-op-hasher cases and 20 % of the others
                let lead = if lead_sel < (if kind.is_nohash() { 6 } else { 2 }) { Some(EDGE_LABELS[li]) } else { None };
                if let Some(l) = lead {
                    if !items.contains(&l) {
                        items.push(l);
                        items.sort_unstable();
                    }
                }
                Case { kind, m, ss, items, pa, pb, lead }
            })
        })
    })
}

/// feed a presentation. Densified sketchers are finished once: presentation "slice" => ONE slice call over the whole
/// stream, otherwise item-wise calls followed by end_sketch.
fn feed(kind: Kind, sk: &mut Box<dyn Sk>, p: &Presentation, items: &[u64]) -> Result<(), Fail> {
    feed_with_lead(kind, sk, p, items, None)
}

fn feed_with_lead(kind: Kind, sk: &mut Box<dyn Sk>, p: &Presentation, items: &[u64], lead: Option<u64>) -> Result<(), Fail> {
    if kind.is_dens() {
        let mut stream = p.stream(items);
        if let Some(l) = lead {
            stream.insert(0, l);
        }
        if p.slice[0] {
            ensure!(sk.slice(&stream), "sketch_slice refused a non-empty slice");
        } else {
            for x in &stream {
                sk.sketch(*x);
            }
            sk.finish();
        }
    } else {
        for (as_slice, chunk) in p.chunks(items) {
            if as_slice && !chunk.is_empty() {
                ensure!(sk.slice(&chunk), "sketch_slice refused a non-empty slice");
            } else {
                for x in &chunk {
                    sk.sketch(*x);
                }
            }
        }
    }
    Ok(())
}

/// the views that constitute "the sketch" (bookkeeping counters of SetSketch are not part of it)
fn sketch_views(v: &Views) -> Views {
    Views { v: v.v.iter().filter(|x| x.0 != "low" && x.0 != "overflow").cloned().collect() }
}

pub fn eval(c: &Case) -> Eval {
    ensure!(!c.items.is_empty(), "generator error: empty set");
    let mut a = make(c.kind, c.m, &c.ss);
    let mut b = make(c.kind, c.m, &c.ss);
    feed(c.kind, &mut a, &c.pa, &c.items)?;
    // presentation B: the lead item (if any) is streamed first and only once, the other items follow as generated
    let rest: Vec<u64> = match c.lead {
        Some(l) => c.items.iter().cloned().filter(|x| *x != l).collect(),
        None => c.items.clone(),
    };
    if let (Some(l), false) = (c.lead, c.kind.is_dens()) {
        // (densified sketchers are finished once: their lead is put in front of the single stream inside feed_with_lead)
        b.sketch(l);
    }
    if !rest.is_empty() || c.kind.is_dens() {
        feed_with_lead(c.kind, &mut b, &c.pb, &rest, c.lead)?;
    }
    let va = a.views();
    let vb = b.views();
    if let Some(d) = sketch_views(&va).first_diff(&sketch_views(&vb)) {
        return Err(Fail::new(format!("{:?} m={} over {} distinct items: two presentations of the same set give different sketches: {}", c.kind, c.m, c.items.len(), d)));
    }
    // positions storing hashes hold hashes of streamed items
    if c.kind.is_smh2() || c.kind.is_dens() {
        let hs: HashSet<u64> = c.items.iter().map(|x| a.hash_of(*x)).collect();
        let v = va.get("u64").unwrap();
        for (k, h) in v.iter().enumerate() {
            ensure!(hs.contains(h), "{:?}: position {} of the u64 view holds {:#x} which is not the hash of any streamed item", c.kind, k, h);
        }
    }
    let sa = c.pa.stream(&c.items);
    let sb = c.pb.stream(&c.items);
    let n = c.items.len();
    let low_active = va.get("low").map_or(false, |l| (l[0] as i64) > 0) || vb.get("low").map_or(false, |l| (l[0] as i64) > 0);
    let rep = Report::new(n >= 2 && (sa != sb || c.pa.chunks(&c.items).len() != c.pb.chunks(&c.items).len()))
        .class(format!("{:?}", c.kind))
        .class_if(sa.len() > n || sb.len() > n, "with-repetitions")
        .class_if(c.m > n, "m>n")
        .class_if(n >= 8 * c.m, "n>=8m")
        .class_if(c.kind.is_set() && low_active, "setsketch-lower-bound-active")
        .class_if(c.kind.is_set() && va.get("overflow").unwrap()[0] > 0, "setsketch-register-overflow")
        .class_if((c.kind.is_smh() || c.kind.is_smh2()) && n >= c.m, "superminhash-n>=m");
    Ok(rep)
}

/// targeted generator for equal-r collisions in the densified sketchers: the value r(x) of an item is observed through the
/// public API (sketch of {x} with one bin), a window of labels is scanned for two items with bit-equal r, and the pair
/// (plus filler items with larger r) is presented in both orders.
#[derive(Clone, Debug, Serialize, Deserialize)]
pub struct TieCase {
    pub kind: Kind,
    pub base: u64,
    pub window: u32,
    pub fillers: u8,
}

pub fn single_r(kind: Kind, x: u64) -> u64 {
    let mut s = make(kind, 1, &SsParams { b: F(1.001), a: F(20.0), q: 100 });
    s.sketch(x);
    s.finish();
    s.views().get("float").unwrap()[0]
}

pub fn eval_tie(c: &TieCase) -> Eval {
    use std::collections::HashMap;
    let mut seen: HashMap<u64, u64> = HashMap::new();
    let mut pairs: Vec<(u64, u64, u64)> = vec![];
    let mut rs: Vec<(u64, u64)> = Vec::with_capacity(c.window as usize);
    for i in 0..c.window as u64 {
        let x = c.base.wrapping_add(i);
        let r = single_r(c.kind, x);
        rs.push((r, x));
        if let Some(y) = seen.insert(r, x) {
            pairs.push((r, y, x));
        }
    }
    let mut checked = 0;
    for (r, x, y) in pairs.iter().take(8) {
        // fillers: items of the window with strictly larger r (bit order == value order for non-negative floats)
        let fill: Vec<u64> = rs.iter().filter(|p| p.0 > *r).take(c.fillers as usize).map(|p| p.1).collect();
        let mut fwd = vec![*x, *y];
        fwd.extend_from_slice(&fill);
        let mut rev = fill.clone();
        rev.push(*y);
        rev.push(*x);
        let mut a = make(c.kind, 1, &SsParams { b: F(1.001), a: F(20.0), q: 100 });
        let mut b = make(c.kind, 1, &SsParams { b: F(1.001), a: F(20.0), q: 100 });
        ensure!(a.slice(&fwd), "slice refused");
        for v in &rev {
            b.sketch(*v);
        }
        b.finish();
        if let Some(d) = a.views().first_diff(&b.views()) {
            return Err(Fail::new(format!("{:?} m=1: items {} and {} have the same value r (bits {:#x}); the set {:?} sketched in two orders gives different sketches: {}", c.kind, x, y, r, fwd, d)));
        }
        checked += 1;
    }
    Ok(Report::new(checked > 0).class(format!("{:?}", c.kind)).class_if(checked > 0, "equal-r-pair-found").class_if(checked == 0, "no-equal-r-pair-in-window"))
}

/// Tie hunting by sorting (public API only): with one position, sketching {x, y} tells which of the two items wins, i.e. it is a
/// comparison in the implementation's own order of per-item values. Sorting a block of items with that comparison makes
/// the closest pairs adjacent; every adjacent pair is then presented in both orders. A sketcher that (wrongly) lets two
/// distinct items tie -- because it keeps fewer bits than it draws, say -- is order dependent exactly on those pairs.
#[derive(Clone, Debug, Serialize, Deserialize)]
pub struct HuntCase {
    pub kind: Kind,
    pub m: usize,
    pub base: u64,
    pub n: u32,
}

pub fn eval_hunt(c: &HuntCase) -> Eval {
    let ss = SsParams { b: F(1.001), a: F(20.0), q: 100 };
    let mut sk = make(c.kind, c.m, &ss);
    // winner at position 0 when x is inserted first
    let mut first_wins = |x: u64, y: u64| -> bool {
        sk.reinit();
        sk.sketch(x);
        sk.sketch(y);
        if c.kind.is_dens() {
            sk.finish();
        }
        let v = sk.views();
        let h = v.get("u64").unwrap()[0];
        h == sk.hash_of(x)
    };
    let mut items: Vec<u64> = (0..c.n as u64).map(|i| splitmix64(c.base.wrapping_add(i))).collect();
    items.sort_unstable();
    items.dedup();
    // merge sort driven by the sketcher's own comparison (an inconsistent comparison cannot make it loop)
    let mut buf = items.clone();
    let mut width = 1;
    let n = items.len();
    while width < n {
        let mut i = 0;
        while i < n {
            let mid = (i + width).min(n);
            let hi = (i + 2 * width).min(n);
            let (mut a, mut b, mut k) = (i, mid, i);
            while a < mid && b < hi {
                if first_wins(items[a], items[b]) {
                    buf[k] = items[a];
                    a += 1;
                } else {
                    buf[k] = items[b];
                    b += 1;
                }
                k += 1;
            }
            while a < mid {
                buf[k] = items[a];
                a += 1;
                k += 1;
            }
            while b < hi {
                buf[k] = items[b];
                b += 1;
                k += 1;
            }
            i += 2 * width;
        }
        std::mem::swap(&mut items, &mut buf);
        width *= 2;
    }
    // adjacent pairs: both orders must give the same sketch
    let mut a = make(c.kind, c.m, &ss);
    let mut b = make(c.kind, c.m, &ss);
    for w in items.windows(2) {
        a.reinit();
        b.reinit();
        a.sketch(w[0]);
        a.sketch(w[1]);
        b.sketch(w[1]);
        b.sketch(w[0]);
        if c.kind.is_dens() {
            a.finish();
            b.finish();
        }
        if let Some(d) = sketch_views(&a.views()).first_diff(&sketch_views(&b.views())) {
            return Err(Fail::new(format!("{:?} m={}: the set {{{}, {}}} (neighbours in the sketcher's own order of item values, found by sorting {} items with two-item sketches) gives different sketches in the two insertion orders: {}", c.kind, c.m, w[0], w[1], n, d)));
        }
    }
    Ok(Report::new(n >= 2).class(format!("{:?}", c.kind)).class(format!("sorted-items<=2^{}", (n as f64).log2().ceil() as u32)))
}

fn hunt_strategy(n: u32) -> impl Strategy<Value = HuntCase> {
    (prop::sample::select(vec![Kind::Smh2U64, Kind::Smh2U64NoHash, Kind::Smh2U32, Kind::OptF64, Kind::RevF64, Kind::OptF32]), prop::sample::select(vec![1usize, 1, 2]), any::<u64>()).prop_map(move |(kind, m, base)| {
        // one position makes the comparison total; with 2 positions the comparison is still well defined at position 0
        HuntCase { kind, m, base, n }
    })
}

/// Distinct items must not alias: every sketcher derives all randomness of an item from its hash value, so two items with
/// different hash values give different single-item sketches (up to a 2^-64-like coincidence). Structured labels are used:
/// small integers, their byte-swapped forms (hash values 0, 1, 2, ... under the no-op hasher), all-ones and neighbours.
#[derive(Clone, Debug, Serialize, Deserialize)]
pub struct AliasCase {
    pub kind: Kind,
    pub m: usize,
    pub base: u64,
}

pub fn eval_alias(c: &AliasCase) -> Eval {
    let ss = SsParams::documented(1.001, c.m, 1.0e6, 1.0e-6);
    let mut labels: Vec<u64> = vec![];
    for i in 0..12u64 {
        labels.push(i);
        labels.push(i.swap_bytes());
        labels.push(u64::MAX - i);
        labels.push((u64::MAX - i).swap_bytes());
        labels.push(c.base.wrapping_add(i));
        labels.push(c.base ^ (1u64 << (i * 5)));
    }
    labels.sort_unstable();
    labels.dedup();
    let mut sk = make(c.kind, c.m, &ss);
    let mut seen: std::collections::HashMap<Vec<u64>, (u64, u64)> = std::collections::HashMap::new();
    for x in &labels {
        sk.reinit();
        sk.sketch(*x);
        if c.kind.is_dens() {
            sk.finish();
        }
        let v = sketch_views(&sk.views());
        let flat: Vec<u64> = v.v.iter().flat_map(|p| p.1.iter().cloned()).collect();
        let h = sk.hash_of(*x);
        if let Some((y, hy)) = seen.get(&flat) {
            ensure!(*hy == h, "{:?} m={}: the single-item sketches of items {} (hash {:#x}) and {} (hash {:#x}) are identical although their hash values differ", c.kind, c.m, y, hy, x, h);
        } else {
            seen.insert(flat, (*x, h));
        }
    }
    Ok(Report::new(true).class(format!("{:?}", c.kind)))
}

fn alias_strategy() -> impl Strategy<Value = AliasCase> {
    (kind_strategy(), prop::sample::select(vec![4usize, 8, 16, 33]), any::<u64>()).prop_map(|(kind, m, base)| AliasCase { kind, m, base })
}

/// long streams and very large sketches for the SuperMinHash family (per-call counters and markers must not wrap; level
/// bookkeeping must survive sketch sizes beyond 2^16)
#[derive(Clone, Debug, Serialize, Deserialize)]
pub struct LongCase {
    pub kind: Kind,
    pub m: usize,
    pub n: u32,
    pub seed: u64,
}

pub fn eval_long(c: &LongCase) -> Eval {
    let ss = SsParams::documented(1.001, c.m, 1.0e6, 1.0e-6);
    let items: Vec<u64> = (0..c.n as u64).map(|i| splitmix64(c.seed.wrapping_add(i))).collect();
    let mut a = make(c.kind, c.m, &ss);
    for x in &items {
        a.sketch(*x);
    }
    // second presentation: another order (stride permutation), the first 2000 items streamed twice, chunks through sketch_slice
    let n = items.len();
    let stride = 7919 % n.max(2) | 1;
    let mut perm: Vec<u64> = Vec::with_capacity(n + 2000);
    let mut i = 0usize;
    let mut step = stride;
    while gcd(step, n) != 1 {
        step += 2;
    }
    for _ in 0..n {
        perm.push(items[i]);
        i = (i + step) % n;
    }
    perm.extend_from_slice(&items[..n.min(2000)]);
    let mut b = make(c.kind, c.m, &ss);
    for chunk in perm.chunks(30_000) {
        ensure!(b.slice(chunk), "sketch_slice refused");
    }
    if let Some(d) = sketch_views(&a.views()).first_diff(&sketch_views(&b.views())) {
        return Err(Fail::new(format!("{:?} m={} over {} distinct items ({} calls): two presentations of the same set give different sketches: {}", c.kind, c.m, n, perm.len(), d)));
    }
    Ok(Report::new(true).class(format!("{:?}", c.kind)).class_if(c.m > 65536, "m>65536").class_if(perm.len() > 65536, "calls>65536"))
}

/// one item repeated about 2^16 times in a row between the other items of a small set (per-call counters and markers advance
/// although nothing else happens); the result must equal the sketch of the set streamed once
pub fn eval_run(c: &LongCase) -> Eval {
    let ss = SsParams::documented(1.001, c.m.max(1), 1.0e6, 1.0e-6);
    let n = 6 + (c.n % 60) as usize;
    let small: Vec<u64> = (0..n as u64).map(|i| splitmix64(c.seed.wrapping_add(i))).collect();
    let msmall = c.m.max(1);
    let mut p1 = make(c.kind, msmall, &ss);
    for x in &small {
        p1.sketch(*x);
    }
    let mut p2 = make(c.kind, msmall, &ss);
    let cut = 1 + (c.seed >> 8) as usize % (n - 1);
    for x in &small[..cut] {
        p2.sketch(*x);
    }
    let runs = 65_500 + (c.seed >> 20) % 41;
    for _ in 0..runs {
        p2.sketch(small[cut - 1]);
    }
    for x in &small[cut..] {
        p2.sketch(*x);
    }
    if let Some(d) = sketch_views(&p1.views()).first_diff(&sketch_views(&p2.views())) {
        return Err(Fail::new(format!("{:?} m={} over {} distinct items: streaming item #{} {} more times in a row before the remaining items changes the sketch: {}", c.kind, msmall, small.len(), cut - 1, runs, d)));
    }
    Ok(Report::new(true).class(format!("{:?}", c.kind)))
}

fn run_strategy() -> impl Strategy<Value = LongCase> {
    (prop::sample::select(vec![Kind::SmhF64, Kind::SmhF32, Kind::SmhF64NoHash, Kind::Smh2U64, Kind::Smh2U32, Kind::SetU16]), 2usize..40, any::<u32>(), any::<u64>()).prop_map(|(kind, m, n, seed)| LongCase { kind, m, n, seed })
}

fn gcd(a: usize, b: usize) -> usize {
    if b == 0 {
        a
    } else {
        gcd(b, a % b)
    }
}

fn long_strategy() -> impl Strategy<Value = LongCase> {
    (prop::sample::select(vec![Kind::SmhF64, Kind::SmhF32, Kind::SmhF64NoHash, Kind::Smh2U64, Kind::Smh2U32, Kind::SetU16, Kind::SetU32]), prop_oneof![1 => 2usize..64, 2 => 20_000usize..110_000], 66_000u32..140_000, any::<u64>())
        .prop_map(|(kind, m, n, seed)| LongCase { kind, m: if kind.is_set() { m.min(4096) } else { m }, n, seed })
}

pub fn tie_strategy(window: u32) -> impl Strategy<Value = TieCase> {
    (prop::sample::select(vec![Kind::OptF32, Kind::RevF32, Kind::OptF64, Kind::RevF64]), any::<u64>(), 0u8..6).prop_map(move |(kind, base, fillers)| TieCase { kind, base, window, fillers })
}

pub fn run(ctx: &Ctx) {
    ctx.set_rule("proptest generates (sketcher kind among SuperMinHash f64/f32/NoHash, SuperMinHash2 u64/u64-NoHash/u32-XxHash32, SetSketch u16/u32, OptDens f64/f32, RevOptDens f64/f32; size m; valid SetSketch parameters; \
        a set of distinct u64 items with size strata n<=8m / n~3 m ln m / up to the tier maximum) and two presentations (copies per item, permutation, chunking, slice vs item-wise calls; densified sketchers: item-wise + end_sketch vs one sketch_slice). \
        Oracle: all sketch views bit-identical between the two presentations; for SuperMinHash2 and the u64 view of the densified sketchers every position is the hasher's value of a streamed item (recomputed independently). \
        Non-trivial = >= 2 distinct items and the two streams differ. Distinct = distinct serialised case. Two targeted generators search for ties between distinct items through the public API only: (dens-equal-r) per-item values read from one-bin sketches, (tie-hunt) 2^18 (quick) / 2^20 (thorough) items sorted by the sketcher's own two-item comparison, every adjacent pair presented in both orders. Two more sub-checks: (distinct-items) structured labels (small integers, byte-swapped forms, all-ones and neighbours, also under the no-op hasher) must give pairwise different single-item sketches whenever their hash values differ; (long-streams) 66 000 .. 140 000 calls on one instance and sketch sizes up to 110 000, two presentations; (run-of-repeats) one item streamed ~65 500 times in a row between the other items of a small set.");
    ctx.assume("SetSketch bookkeeping counters (get_low_sketch, get_nb_overflow) are not part of the sketch and are not compared here (they count events, not items)");
    super::run_fixed_tier(ctx, replay);
    let (cases, max_m, max_n) = ctx.tier.pick((160_000, 512, 2000), (1_200_000, 2048, 6000));
    ctx.drive("presentations", cases, 16, 1500, || strategy(max_m, max_n), eval);
    let (tcases, window) = ctx.tier.pick((64, 40_000), (1600, 120_000));
    ctx.drive("dens-equal-r", tcases, 16, 40, || tie_strategy(window), eval_tie);
    let cases = ctx.tier.pick(600, 12_000);
    ctx.drive("distinct-items", cases, 16, 50, alias_strategy, eval_alias);
    let cases = ctx.tier.pick(32, 480);
    ctx.drive("long-streams", cases, 16, 4, long_strategy, eval_long);
    let cases = ctx.tier.pick(1600, 32_000);
    ctx.drive("run-of-repeats", cases, 16, 8, run_strategy, eval_run);
    let (hcases, n) = ctx.tier.pick((32, 1u32 << 18), (320, 1u32 << 20));
    ctx.drive("tie-hunt", hcases, 16, 8, || hunt_strategy(n), eval_hunt);
}

pub fn replay(ctx: &Ctx, sub: &str, case: &Value) -> Result<(), String> {
    if sub == "distinct-items" {
        let c: AliasCase = parse_case(case)?;
        ctx.run_fixed(sub, &c, eval_alias);
    } else if sub == "run-of-repeats" {
        let c: LongCase = parse_case(case)?;
        ctx.run_fixed(sub, &c, eval_run);
    } else if sub == "long-streams" {
        let c: LongCase = parse_case(case)?;
        ctx.run_fixed(sub, &c, eval_long);
    } else if sub == "tie-hunt" {
        let c: HuntCase = parse_case(case)?;
        ctx.run_fixed(sub, &c, eval_hunt);
    } else if sub == "dens-equal-r" {
        let c: TieCase = parse_case(case)?;
        ctx.run_fixed(sub, &c, eval_tie);
    } else {
        let c: Case = parse_case(case)?;
        ctx.run_fixed(sub, &c, eval);
    }
    Ok(())
}

