//! C04 - unweighted sketches have set semantics
use crate::fw::*;
use crate::gen::*;
use crate::sk::*;
use crate::util::*;
use proptest::prelude::*;
use serde::{Deserialize, Serialize};
use serde_json::Value;
use std::collections::HashSet;

#[derive(Clone, Debug, Serialize, Deserialize)]
pub struct Case {
    pub kind: Kind,
    pub m: usize,
    pub ss: SsParams,
    pub items: Vec<u64>,
    pub pa: Presentation,
    pub pb: Presentation,
}

fn strategy(max_m: usize, max_n: usize) -> impl Strategy<Value = Case> {
    (kind_strategy(), crate::gen::m_strategy(1, max_m), 0u8..10).prop_flat_map(move |(kind, m, shape)| {
        // SetSketch: a stratum with n >> m ln m so that the lower bound becomes active; others: n around / above m
        let nmax = match shape {
            0..=2 => (8 * m).clamp(2, max_n),
            3..=5 => ((m as f64 * ((m as f64).ln() + 3.0) * 3.0) as usize).clamp(4, max_n),
            _ => max_n,
        };
        let nmin = if shape <= 2 { 1 } else { nmax / 4 + 1 };
        (ss_params(m), item_set(nmin, nmax)).prop_flat_map(move |(ss, items)| {
            let n = items.len();
            (presentation(n), presentation(n)).prop_map(move |(pa, pb)| Case { kind, m, ss, items: items.clone(), pa, pb })
        })
    })
}

/// feed a presentation. Densified sketchers are finished once: presentation "slice" => ONE slice call over the whole
/// stream, otherwise item-wise calls followed by end_sketch.
fn feed(kind: Kind, sk: &mut Box<dyn Sk>, p: &Presentation, items: &[u64]) -> Result<(), Fail> {
    if kind.is_dens() {
        let stream = p.stream(items);
        if p.slice[0] {
            ensure!(sk.slice(&stream), "sketch_slice refused a non-empty slice");
        } else {
            for x in &stream {
                sk.sketch(*x);
            }
            sk.finish();
        }
    } else {
        for (as_slice, chunk) in p.chunks(items) {
            if as_slice && !chunk.is_empty() {
                ensure!(sk.slice(&chunk), "sketch_slice refused a non-empty slice");
            } else {
                for x in &chunk {
                    sk.sketch(*x);
                }
            }
        }
    }
    Ok(())
}

/// the views that constitute "the sketch" (bookkeeping counters of SetSketch are not part of it)
fn sketch_views(v: &Views) -> Views {
    Views { v: v.v.iter().filter(|x| x.0 != "low" && x.0 != "overflow").cloned().collect() }
}

pub fn eval(c: &Case) -> Eval {
    ensure!(!c.items.is_empty(), "generator error: empty set");
    let mut a = make(c.kind, c.m, &c.ss);
    let mut b = make(c.kind, c.m, &c.ss);
    feed(c.kind, &mut a, &c.pa, &c.items)?;
    feed(c.kind, &mut b, &c.pb, &c.items)?;
    let va = a.views();
    let vb = b.views();
    // f32 SuperMinHash: r + j can round up to j + 1; cases whose final sketch shows such a value are not asserted (see DESIGN 5/C04)
    if c.kind == Kind::SmhF32 {
        let int_valued = |v: &Views| v.get("float").unwrap().iter().any(|b| { let x = f32::from_bits(*b as u32); x.fract() == 0.0 });
        if int_valued(&va) || int_valued(&vb) {
            return Ok(Report::new(false).excluded("f32-superminhash-integer-valued-register"));
        }
    }
    if let Some(d) = sketch_views(&va).first_diff(&sketch_views(&vb)) {
        return Err(Fail::new(format!("{:?} m={} over {} distinct items: two presentations of the same set give different sketches: {}", c.kind, c.m, c.items.len(), d)));
    }
    // positions storing hashes hold hashes of streamed items
    if c.kind.is_smh2() || c.kind.is_dens() {
        let hs: HashSet<u64> = c.items.iter().map(|x| a.hash_of(*x)).collect();
        let v = va.get("u64").unwrap();
        for (k, h) in v.iter().enumerate() {
            ensure!(hs.contains(h), "{:?}: position {} of the u64 view holds {:#x} which is not the hash of any streamed item", c.kind, k, h);
        }
    }
    let sa = c.pa.stream(&c.items);
    let sb = c.pb.stream(&c.items);
    let n = c.items.len();
    let low_active = va.get("low").map_or(false, |l| (l[0] as i64) > 0) || vb.get("low").map_or(false, |l| (l[0] as i64) > 0);
    let rep = Report::new(n >= 2 && (sa != sb || c.pa.chunks(&c.items).len() != c.pb.chunks(&c.items).len()))
        .class(format!("{:?}", c.kind))
        .class_if(sa.len() > n || sb.len() > n, "with-repetitions")
        .class_if(c.m > n, "m>n")
        .class_if(n >= 8 * c.m, "n>=8m")
        .class_if(c.kind.is_set() && low_active, "setsketch-lower-bound-active")
        .class_if(c.kind.is_set() && va.get("overflow").unwrap()[0] > 0, "setsketch-register-overflow")
        .class_if((c.kind.is_smh() || c.kind.is_smh2()) && n >= c.m, "superminhash-n>=m");
    Ok(rep)
}

/// targeted generator for equal-r collisions in the densified sketchers: the value r(x) of an item is observed through the
/// public API (sketch of {x} with one bin), a window of labels is scanned for two items with bit-equal r, and the pair
/// (plus filler items with larger r) is presented in both orders.
#[derive(Clone, Debug, Serialize, Deserialize)]
pub struct TieCase {
    pub kind: Kind,
    pub base: u64,
    pub window: u32,
    pub fillers: u8,
}

fn single_r(kind: Kind, x: u64) -> u64 {
    let mut s = make(kind, 1, &SsParams { b: F(1.001), a: F(20.0), q: 100 });
    s.sketch(x);
    s.finish();
    s.views().get("float").unwrap()[0]
}

pub fn eval_tie(c: &TieCase) -> Eval {
    use std::collections::HashMap;
    let mut seen: HashMap<u64, u64> = HashMap::new();
    let mut pairs: Vec<(u64, u64, u64)> = vec![];
    let mut rs: Vec<(u64, u64)> = Vec::with_capacity(c.window as usize);
    for i in 0..c.window as u64 {
        let x = c.base.wrapping_add(i);
        let r = single_r(c.kind, x);
        rs.push((r, x));
        if let Some(y) = seen.insert(r, x) {
            pairs.push((r, y, x));
        }
    }
    let mut checked = 0;
    for (r, x, y) in pairs.iter().take(8) {
        // fillers: items of the window with strictly larger r (bit order == value order for non-negative floats)
        let fill: Vec<u64> = rs.iter().filter(|p| p.0 > *r).take(c.fillers as usize).map(|p| p.1).collect();
        let mut fwd = vec![*x, *y];
        fwd.extend_from_slice(&fill);
        let mut rev = fill.clone();
        rev.push(*y);
        rev.push(*x);
        let mut a = make(c.kind, 1, &SsParams { b: F(1.001), a: F(20.0), q: 100 });
        let mut b = make(c.kind, 1, &SsParams { b: F(1.001), a: F(20.0), q: 100 });
        ensure!(a.slice(&fwd), "slice refused");
        for v in &rev {
            b.sketch(*v);
        }
        b.finish();
        if let Some(d) = a.views().first_diff(&b.views()) {
            return Err(Fail::new(format!("{:?} m=1: items {} and {} have the same value r (bits {:#x}); the set {:?} sketched in two orders gives different sketches: {}", c.kind, x, y, r, fwd, d)));
        }
        checked += 1;
    }
    Ok(Report::new(checked > 0).class(format!("{:?}", c.kind)).class_if(checked > 0, "equal-r-pair-found").class_if(checked == 0, "no-equal-r-pair-in-window"))
}

fn tie_strategy(window: u32) -> impl Strategy<Value = TieCase> {
    (prop::sample::select(vec![Kind::OptF32, Kind::RevF32, Kind::OptF64, Kind::RevF64]), any::<u64>(), 0u8..6).prop_map(move |(kind, base, fillers)| TieCase { kind, base, window, fillers })
}

pub fn run(ctx: &Ctx) {
    ctx.set_rule("proptest generates (sketcher kind among SuperMinHash f64/f32/NoHash, SuperMinHash2 u64/u64-NoHash/u32-XxHash32, SetSketch u16/u32, OptDens f64/f32, RevOptDens f64/f32; size m; valid SetSketch parameters; \
        a set of distinct u64 items with size strata n<=8m / n~3 m ln m / up to the tier maximum) and two presentations (copies per item, permutation, chunking, slice vs item-wise calls; densified sketchers: item-wise + end_sketch vs one sketch_slice). \
        Oracle: all sketch views bit-identical between the two presentations; for SuperMinHash2 and the u64 view of the densified sketchers every position is the hasher's value of a streamed item (recomputed independently). \
        Non-trivial = >= 2 distinct items and the two streams differ. Distinct = distinct serialised case.");
    ctx.assume("SuperMinHash<f32>: a case whose final sketch contains an integer-valued register (r + j rounded up to j + 1 in f32) is not asserted and counted under excluded");
    ctx.assume("SetSketch bookkeeping counters (get_low_sketch, get_nb_overflow) are not part of the sketch and are not compared here (they count events, not items)");
    super::run_fixed_tier(ctx, replay);
    let (cases, max_m, max_n) = ctx.tier.pick((160_000, 512, 2000), (3_000_000, 4096, 20000));
    ctx.drive("presentations", cases, 16, 1500, || strategy(max_m, max_n), eval);
    let (tcases, window) = ctx.tier.pick((64, 40_000), (1600, 120_000));
    ctx.drive("dens-equal-r", tcases, 16, 40, || tie_strategy(window), eval_tie);
}

pub fn replay(ctx: &Ctx, sub: &str, case: &Value) -> Result<(), String> {
    if sub == "dens-equal-r" {
        let c: TieCase = parse_case(case)?;
        ctx.run_fixed(sub, &c, eval_tie);
    } else {
        let c: Case = parse_case(case)?;
        ctx.run_fixed(sub, &c, eval);
    }
    Ok(())
}

