//! C08 - densified one-permutation hashing is an unbiased Jaccard LSH at any fill ratio
use crate::dist::*;
use crate::fw::*;
use crate::oracle::jp::jaccard;
use crate::sk::*;
use crate::stat::{mean_test, Acc, MeanTest};
use crate::util::*;
use proptest::prelude::*;
use serde::{Deserialize, Serialize};
use serde_json::Value;

const DUMMY: SsParams = SsParams { b: F(1.001), a: F(20.0), q: 100 };

#[derive(Clone, Debug, Serialize, Deserialize)]
pub struct Case {
    pub kind: Kind,
    pub m: usize,
    pub only_a: usize,
    pub only_b: usize,
    pub both: usize,
    pub trials: u64,
    pub seed: u64,
}

fn strategy(max_m: usize, work: u64) -> impl Strategy<Value = Case> {
    let kinds = vec![Kind::OptF64, Kind::OptF32, Kind::RevF64, Kind::RevF32];
    // fill ratio |A u B| / m from 1/64 to 50
    let fill = prop::sample::select(vec![1.0 / 64.0, 1.0 / 16.0, 0.125, 0.25, 0.5, 1.0, 2.0, 8.0, 50.0]);
    (prop::sample::select(kinds), prop_oneof![1 => 1usize..8, 3 => crate::gen::m_strategy(1, max_m)], fill, 0.02f64..0.98, 0.0f64..1.0, 0u8..6, any::<u64>()).prop_map(move |(kind, m, fill, jfrac, split, shape, seed)| {
        let union = ((fill * m as f64).round() as usize).max(2);
        let mut both = ((jfrac * union as f64).round() as usize).min(union);
        let rest = union - both;
        let mut only_a = (split * rest as f64).round() as usize;
        let mut only_b = rest - only_a;
        match shape {
            0 => {
                // nested
                only_b += only_a;
                only_a = 0;
                both = both.max(1);
            }
            1 => {
                // one common item only
                if both == 0 {
                    both = 1;
                }
            }
            _ => {}
        }
        if only_a + both == 0 {
            only_a = 1;
        }
        if only_b + both == 0 {
            only_b = 1;
        }
        let n_min = (only_a + both).min(only_b + both).max(1) as u64;
        let dens_cost = match kind {
            Kind::OptF64 | Kind::OptF32 => (m as u64) * (1 + (m as u64) / n_min).min(200),
            _ => (m as u64) * 12,
        };
        let per_trial = (only_a + only_b + 2 * both) as u64 + 2 * dens_cost;
        let trials = (work / per_trial.max(1)).clamp(600, 400_000);
        Case { kind, m, only_a, only_b, both, trials, seed }
    })
}

fn sample(c: &Case, seed: u64, trials: u64) -> Vec<Acc> {
    let mut rng = SmRng::new(seed);
    let mut sa = make(c.kind, c.m, &DUMMY);
    let mut sb = make(c.kind, c.m, &DUMMY);
    let mut accs = vec![Acc::default(); 3];
    let mut va: Vec<u64> = Vec::with_capacity(c.only_a + c.both);
    let mut vb: Vec<u64> = Vec::with_capacity(c.only_b + c.both);
    for _ in 0..trials {
        sa.reinit();
        sb.reinit();
        va.clear();
        vb.clear();
        let base = rng.next_u64();
        let lab = |k: u64, i: usize| splitmix64(base ^ (k << 62) ^ (i as u64).wrapping_mul(0x9E3779B97F4A7C15));
        for i in 0..c.only_a {
            va.push(lab(1, i));
        }
        for i in 0..c.only_b {
            vb.push(lab(2, i));
        }
        for i in 0..c.both {
            va.push(lab(3, i));
            vb.push(lab(3, i));
        }
        sa.slice(&va);
        sb.slice(&vb);
        let (wa, wb) = (sa.views(), sb.views());
        for (vi, name) in ["float", "u64", "u32"].iter().enumerate() {
            let (x, y) = (wa.get(name).unwrap(), wb.get(name).unwrap());
            let eq = x.iter().zip(y.iter()).filter(|(p, q)| p == q).count();
            accs[vi].push(eq as f64 / c.m as f64);
        }
    }
    accs
}

pub fn eval(c: &Case) -> Eval {
    let j = jaccard(c.only_a, c.only_b, c.both);
    // positions are strongly correlated after densification: only the generic variance bound J(1-J) and the empirical variance are used
    let checks: Vec<Check> = ["float view", "u64 view", "u32 view"].iter().map(|n| Check { name: format!("mean fraction of equal positions ({}) vs J", n), want: Want::Mean { mu: j, var_h: None } }).collect();
    let what = format!("{:?} m={} |A\\B|={} |B\\A|={} |A&B|={} J={:.6}", c.kind, c.m, c.only_a, c.only_b, c.both, j);
    let tests = decide_multi(&what, &checks, c.trials, c.seed, &|s, t| sample(c, s, t))?;
    let union = c.only_a + c.only_b + c.both;
    let nmax = (c.only_a + c.both).max(c.only_b + c.both);
    Ok(Report::new(j > 0.0 && j < 1.0)
        .trials(2 * c.trials)
        .resolution(tests[0].tol)
        .class(format!("{:?}", c.kind))
        .class_if(2 * nmax <= c.m, "sparse(at-least-half-the-bins-filled-by-densification)")
        .class_if(8 * union <= c.m, "very-sparse(fill<=1/8)")
        .class_if(union >= 8 * c.m, "dense(fill>=8)")
        .class_if(c.m == 1, "m=1")
        .class_if(c.only_a == 0 || c.only_b == 0, "nested"))
}


// ------------------------------------------------------------------------------------------------ control variate
// The items of a trial are fresh random labels, hence exchangeable: whatever the sketcher does, each position of the sketch of
// the union U = A u B holds any given item of U with the same probability, so the fraction of positions of U's sketch holding an
// item of A & B has expectation exactly J. D = (fraction of equal positions of A's and B's sketches) - (that fraction) therefore has
// expectation E[collisions] - J, and a far smaller variance than the collision fraction itself (positions that collide are mostly the
// positions where the union holds a common item). Decision in two stages:
//  1. screening sample of T0 trials. If D = 0 in every trial (what the crate's algorithms give), then P(D != 0) <= L / T0 with
//     confidence 1 - 1e-14 and |E D| <= P(D != 0): the case holds at the resolution L / T0, far better than any mean test on T0 trials.
//  2. when some screening trials have D != 0 and their mean is large enough for the second stage to resolve, the case is escalated: a fresh, independent sample of `big_trials` trials (drawn on 16 threads) and E D = 0 decided by
//     empirical Bernstein, confirmed on another independent sample of twice the size. The screening sample only decides where the
//     budget is spent; the verdict rests on the fresh samples alone.
// Which item a position of U holds is read from the u64 view (observed to be the hash of the item held); the premise is verified on
// every trial (every u64 value of U's sketch must be the hash of an item of U) and the case is skipped when it does not hold.

#[derive(Clone, Debug, Serialize, Deserialize)]
pub struct CvCase {
    pub kind: Kind,
    pub m: usize,
    pub only_a: usize,
    pub only_b: usize,
    pub both: usize,
    /// screening trials
    pub trials: u64,
    /// trials of the escalated decision (and twice as many for its confirmation)
    pub big_trials: u64,
    pub seed: u64,
}

struct CvSample {
    accs: Vec<Acc>,
    premise: bool,
    /// trials in which some view has D != 0
    nonzero: u64,
}

fn sample_cv(c: &CvCase, seed: u64, trials: u64) -> CvSample {
    let mut rng = SmRng::new(seed);
    let mut sa = make(c.kind, c.m, &DUMMY);
    let mut sb = make(c.kind, c.m, &DUMMY);
    let mut su = make(c.kind, c.m, &DUMMY);
    let mut out = CvSample { accs: vec![Acc::default(); 3], premise: true, nonzero: 0 };
    let (mut va, mut vb, mut vu): (Vec<u64>, Vec<u64>, Vec<u64>) = (vec![], vec![], vec![]);
    let mut common: std::collections::HashSet<u64> = std::collections::HashSet::new();
    let mut all: std::collections::HashSet<u64> = std::collections::HashSet::new();
    for _ in 0..trials {
        sa.reinit();
        sb.reinit();
        su.reinit();
        va.clear();
        vb.clear();
        vu.clear();
        common.clear();
        all.clear();
        for i in 0..(c.only_a + c.only_b + c.both) {
            let x = rng.next_u64();
            all.insert(su.hash_of(x));
            vu.push(x);
            if i < c.only_a {
                va.push(x);
            } else if i < c.only_a + c.only_b {
                vb.push(x);
            } else {
                va.push(x);
                vb.push(x);
                common.insert(su.hash_of(x));
            }
        }
        // the union is presented in a shuffled order (no position of the stream is special)
        for i in (1..vu.len()).rev() {
            vu.swap(i, rng.below(i as u64 + 1) as usize);
        }
        sa.slice(&va);
        sb.slice(&vb);
        su.slice(&vu);
        let (wa, wb, wu) = (sa.views(), sb.views(), su.views());
        let uh = wu.get("u64").unwrap();
        if !uh.iter().all(|h| all.contains(h)) {
            out.premise = false;
            break;
        }
        let ctl = uh.iter().filter(|h| common.contains(h)).count();
        let mut any = false;
        for (vi, name) in ["float", "u64", "u32"].iter().enumerate() {
            let (x, y) = (wa.get(name).unwrap(), wb.get(name).unwrap());
            let eq = x.iter().zip(y.iter()).filter(|(p, q)| p == q).count();
            any |= eq != ctl;
            // mapped into [0,1]: X = (D + 1) / 2, E X = 1/2 under the property
            out.accs[vi].push(0.5 * ((eq as f64 - ctl as f64) / c.m as f64 + 1.0));
        }
        out.nonzero += any as u64;
    }
    out
}

/// `trials` trials drawn on 16 threads (chunk seeds derived from `seed`, results merged in chunk order: deterministic)
fn sample_cv_par(c: &CvCase, seed: u64, trials: u64) -> CvSample {
    const CH: u64 = 16;
    let per = (trials + CH - 1) / CH;
    let parts: Vec<CvSample> = std::thread::scope(|sc| {
        let hs: Vec<_> = (0..CH).map(|k| sc.spawn(move || sample_cv(c, mix(&[seed, 0xC8, k]), per))).collect();
        hs.into_iter().map(|h| h.join().expect("sampler thread")).collect()
    });
    let mut out = CvSample { accs: vec![Acc::default(); 3], premise: true, nonzero: 0 };
    for p in parts {
        for i in 0..3 {
            out.accs[i].merge(&p.accs[i]);
        }
        out.premise &= p.premise;
        out.nonzero += p.nonzero;
    }
    out
}

fn eval_cv_inner(c: &CvCase, strict: bool) -> Eval {
    let j = jaccard(c.only_a, c.only_b, c.both);
    let union = c.only_a + c.only_b + c.both;
    let nmax = (c.only_a + c.both).max(c.only_b + c.both);
    let skipped = || Ok(Report::new(false).class("u64-view-is-not-the-hash-of-the-item-held(skipped)"));
    let rep = |trials: u64, res: f64| {
        Report::new(j > 0.0 && j < 1.0)
            .trials(3 * trials)
            .resolution(res)
            .class(format!("{:?}", c.kind))
            .class_if(2 * nmax <= c.m, "sparse(at-least-half-the-bins-filled-by-densification)")
            .class_if(8 * union <= c.m, "very-sparse(fill<=1/8)")
            .class_if(union >= 2 * c.m, "fill>=2")
            .class_if(c.m > 2048, "m>2048")
    };
    let s0 = sample_cv(c, c.seed, c.trials);
    if !s0.premise {
        return skipped();
    }
    if s0.nonzero == 0 {
        return Ok(rep(c.trials, L / c.trials as f64).class("every-trial-exactly-consistent-with-the-union"));
    }
    // some trials differ. The second stage is run only where it can resolve something: when the screening mean of D, for some view,
    // exceeds 0.8 x the tolerance the second stage will have (predicted from the screening variance). This is budget allocation only:
    // the verdict rests on the fresh samples. Otherwise P(D != 0) is still bounded by the screening sample (Bernstein bound for a
    // binomial proportion), which bounds |E D| and is recorded as the resolution.
    let promising = s0.accs.iter().any(|a| (a.mean - 0.5).abs() > 0.8 * crate::stat::emp_bernstein_tol(a.var(), 1.0, L + std::f64::consts::LN_2, c.big_trials as f64));
    if !promising {
        let (k, t) = (s0.nonzero as f64, c.trials as f64);
        return Ok(rep(c.trials, ((k + 2.0 * L + 2.0 * (k * L).sqrt()) / t).min(1.0)).class("some-trials-differ-from-the-union-control(mean-difference-below-what-the-second-stage-resolves)"));
    }
    let what = format!("{:?} m={} |A\\B|={} |B\\A|={} |A&B|={} J={:.6}", c.kind, c.m, c.only_a, c.only_b, c.both, j);
    if std::env::var("VERIF_DEBUG_CV").is_ok() {
        eprintln!("ESCALATE {} nonzero={}/{} big<={}", what, s0.nonzero, c.trials, c.big_trials);
    }
    // size of the second stage: what the screening estimate suggests is needed (x 1.5), never more than the budget of the case
    let need = s0
        .accs
        .iter()
        .map(|a| {
            let mu = (a.mean - 0.5).abs().max(1e-9);
            let l2 = L + 2.0 * std::f64::consts::LN_2;
            (4.0 * 7.0 * l2 / (3.0 * mu)).max(8.0 * a.var() * l2 / (mu * mu))
        })
        .fold(f64::INFINITY, f64::min);
    let big = ((1.5 * need) as u64).clamp(2_000, c.big_trials.max(2_000));
    // once a violation of this sub-check is confirmed, cases still waiting for their second stage are not decided any more
    // (on a violating tree the reported counterexample can therefore differ between runs; each one is confirmed and replayable)
    let undecided = || Ok(rep(c.trials, 1.0).class("second-stage-not-run(another-case-already-failed)"));
    if CV_FAILED.load(std::sync::atomic::Ordering::Relaxed) && !strict {
        return undecided();
    }
    let s1 = sample_cv_par(c, splitmix64(c.seed ^ 0xE5CA1A7E), big);
    if !s1.premise {
        return skipped();
    }
    let names = ["float view", "u64 view", "u32 view"];
    let t1: Vec<MeanTest> = s1.accs.iter().map(|a| mean_test(a, 0.5, None, L)).collect();
    if t1.iter().any(|t| !t.ok) {
        if CV_FAILED.load(std::sync::atomic::Ordering::Relaxed) && !strict {
            return undecided();
        }
        let s2 = sample_cv_par(c, splitmix64(c.seed ^ 0xC0FFEE), 2 * big);
        if !s2.premise {
            return skipped();
        }
        for i in 0..3 {
            let t2 = mean_test(&s2.accs[i], 0.5, None, L);
            if !t1[i].ok && !t2.ok {
                CV_FAILED.store(true, std::sync::atomic::Ordering::Relaxed);
                return Err(Fail::new(format!(
                    "{}: expected fraction of equal positions ({}) minus the fraction of positions of the union's sketch holding a common item (whose expectation is exactly J): empirical mean {:.6e} (T = {}), then {:.6e} on an independent sample (T = {}); it is 0 when the expected collision fraction is J; rigorous tolerances {:.3e} / {:.3e}. {} of the {} screening trials had a non-zero difference",
                    what, names[i], 2.0 * (t1[i].mean - 0.5), big, 2.0 * (t2.mean - 0.5), 2 * big, 2.0 * t1[i].tol, 2.0 * t2.tol, s0.nonzero, c.trials
                )));
            }
        }
    }
    Ok(rep(c.trials + big, 2.0 * t1[0].tol).class("escalated(some-trial-differs-from-the-union-control)"))
}

static CV_FAILED: std::sync::atomic::AtomicBool = std::sync::atomic::AtomicBool::new(false);

pub fn eval_cv(c: &CvCase) -> Eval {
    eval_cv_inner(c, false)
}
/// replay: always decides
pub fn eval_cv_strict(c: &CvCase) -> Eval {
    eval_cv_inner(c, true)
}

fn cv_strategy(work: u64, big_work: u64) -> impl Strategy<Value = CvCase> {
    let kinds = vec![Kind::OptF64, Kind::OptF32, Kind::RevF64, Kind::RevF32];
    // (m, |A u B|): small and medium sketches over fill ratios 1/16 .. 3, and sketches of 2049 .. 9000 positions with sets from 4 items to m/4
    let small = (prop_oneof![1 => 2usize..16, 3 => 16usize..200, 1 => prop::sample::select(vec![16usize, 32, 64, 128, 256, 512, 1024])], prop::sample::select(vec![1.0 / 16.0, 0.125, 0.2, 0.35, 0.5, 0.8, 1.0, 2.0, 3.0]))
        .prop_map(|(m, fill)| (m, ((fill * m as f64).round() as usize).max(2)));
    let large = (prop_oneof![2 => 2049usize..4200, 1 => 4200usize..9000, 1 => prop::sample::select(vec![2400usize, 3000, 4096, 8192])], 0.0f64..1.0).prop_map(|(m, u)| (m, (4.0 * (m as f64 / 16.0).powf(u)).round() as usize));
    (prop::sample::select(kinds), prop_oneof![5 => small, 1 => large], 0.05f64..0.95, 0.0f64..1.0, any::<u64>()).prop_map(move |(kind, (m, union), jfrac, split, seed)| {
        let union = union.max(2);
        let both = ((jfrac * union as f64).round() as usize).clamp(1, union - 1);
        let rest = union - both;
        let only_a = (split * rest as f64).round() as usize;
        let only_b = rest - only_a;
        // calibrated cost model, in nanoseconds of one core: per sketch 60 ns per item; optimal densification seeds one generator per
        // empty bin and makes about m ln(m/p) probes; reverse densification seeds one generator per populated bin and pass, about ln m + 2 passes
        let cost = |n: usize| -> f64 {
            let (mf, nf) = (m as f64, n as f64);
            let p = mf * (1.0 - (-nf / mf).exp()); // expected number of populated bins
            let dens = if mf - p < 0.5 {
                0.0
            } else {
                match kind {
                    Kind::OptF64 | Kind::OptF32 => 110.0 * (mf - p) + 10.0 * mf * (mf / p.max(1.0)).ln(),
                    _ => 150.0 * mf * (mf.ln() + 2.0),
                }
            };
            60.0 * nf + 30.0 * mf + dens
        };
        let per_trial = ((cost(only_a + both) + cost(only_b + both) + cost(union) + 100.0 * union as f64) as u64).max(1);
        CvCase { kind, m, only_a, only_b, both, trials: (work / per_trial).clamp(300, 20_000), big_trials: (big_work / per_trial).clamp(4_000, 200_000), seed }
    })
}

pub fn run(ctx: &Ctx) {
    ctx.set_rule("proptest generates (algorithm Opt/RevOpt with f64/f32, m from 1 upward, fill ratio |A u B|/m in {1/64 .. 50}, Jaccard fraction, split of the difference, shapes general / nested / single common item, trial seed). \
        Per trial fresh random items, both sets sketched with sketch_slice; three statistics per trial: fraction of equal positions in the float, u64 and u32 views. Oracle J = |A&B|/|A u B|. Decision: Bernstein with the generic variance J(1-J) and empirical Bernstein (positions are strongly correlated after densification), \
        delta 1e-14, confirmation on an independent seed with 4x trials. Non-trivial = 0 < J < 1. Trials come from a work budget (sparse cases are cheap and get up to 4e5 trials). \
        Sub-check control-variate (m 2..1024 over fill 1/16..3, and m 2049..9000 with sets from 4 items to m/4): per trial the union is sketched as well; the items being fresh random labels are exchangeable, so the fraction of positions of the union's sketch that hold an item of A&B has expectation exactly J whatever the algorithm; \
        D = collision fraction - that fraction has expectation E[collisions] - J. Stage 1: a screening sample (300..2e4 trials); when D = 0 in every trial, P(D != 0) <= L/T0 (delta 1e-14) bounds |E D| and the case holds at that resolution. Stage 2 (only when some screening trials have D != 0 and their mean exceeds 0.8 x the tolerance the second stage will reach; otherwise the binomial bound on P(D != 0) is recorded as the resolution): a fresh independent sample of 2e3..2e5 trials (sized from the screening estimate), E D = 0 decided by empirical Bernstein (delta 1e-14), confirmed on another independent sample of twice the size. \
        The item held by a position is read from the u64 view (verified per trial to be the hash of an item of the union; the case is skipped otherwise).");
    super::run_fixed_tier(ctx, replay);
    let (cases, max_m, work) = ctx.tier.pick((160, 512, 12_000_000), (2400, 4096, 60_000_000));
    ctx.drive("unbiased", cases, 16, 16, || strategy(max_m, work), eval);
    let (cases, work, big_work) = ctx.tier.pick((400, 40_000_000, 20_000_000_000), (8000, 150_000_000, 60_000_000_000));
    ctx.drive("control-variate", cases, 16, 0, || cv_strategy(work, big_work), eval_cv);
}

pub fn replay(ctx: &Ctx, sub: &str, case: &Value) -> Result<(), String> {
    if sub == "control-variate" {
        let c: CvCase = parse_case(case)?;
        ctx.run_fixed(sub, &c, eval_cv_strict);
        return Ok(());
    }
    let c: Case = parse_case(case)?;
    ctx.run_fixed(sub, &c, eval);
    Ok(())
}
