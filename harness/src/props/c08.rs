//! C08 - densified one-permutation hashing is an unbiased Jaccard LSH at any fill ratio
use crate::dist::*;
use crate::fw::*;
use crate::oracle::jp::jaccard;
use crate::sk::*;
use crate::stat::Acc;
use crate::util::*;
use proptest::prelude::*;
use serde::{Deserialize, Serialize};
use serde_json::Value;

const DUMMY: SsParams = SsParams { b: F(1.001), a: F(20.0), q: 100 };

#[derive(Clone, Debug, Serialize, Deserialize)]
pub struct Case {
    pub kind: Kind,
    pub m: usize,
    pub only_a: usize,
    pub only_b: usize,
    pub both: usize,
    pub trials: u64,
    pub seed: u64,
}

fn strategy(max_m: usize, work: u64) -> impl Strategy<Value = Case> {
    let kinds = vec![Kind::OptF64, Kind::OptF32, Kind::RevF64, Kind::RevF32];
    // fill ratio |A u B| / m from 1/64 to 50
    let fill = prop::sample::select(vec![1.0 / 64.0, 1.0 / 16.0, 0.125, 0.25, 0.5, 1.0, 2.0, 8.0, 50.0]);
    (prop::sample::select(kinds), prop_oneof![1 => 1usize..8, 3 => crate::gen::m_strategy(1, max_m)], fill, 0.02f64..0.98, 0.0f64..1.0, 0u8..6, any::<u64>()).prop_map(move |(kind, m, fill, jfrac, split, shape, seed)| {
        let union = ((fill * m as f64).round() as usize).max(2);
        let mut both = ((jfrac * union as f64).round() as usize).min(union);
        let rest = union - both;
        let mut only_a = (split * rest as f64).round() as usize;
        let mut only_b = rest - only_a;
        match shape {
            0 => {
                // nested
                only_b += only_a;
                only_a = 0;
                both = both.max(1);
            }
            1 => {
                // one common item only
                if both == 0 {
                    both = 1;
                }
            }
            _ => {}
        }
        if only_a + both == 0 {
            only_a = 1;
        }
        if only_b + both == 0 {
            only_b = 1;
        }
        let n_min = (only_a + both).min(only_b + both).max(1) as u64;
        let dens_cost = match kind {
            Kind::OptF64 | Kind::OptF32 => (m as u64) * (1 + (m as u64) / n_min).min(200),
            _ => (m as u64) * 12,
        };
        let per_trial = (only_a + only_b + 2 * both) as u64 + 2 * dens_cost;
        let trials = (work / per_trial.max(1)).clamp(600, 400_000);
        Case { kind, m, only_a, only_b, both, trials, seed }
    })
}

fn sample(c: &Case, seed: u64, trials: u64) -> Vec<Acc> {
    let mut rng = SmRng::new(seed);
    let mut sa = make(c.kind, c.m, &DUMMY);
    let mut sb = make(c.kind, c.m, &DUMMY);
    let mut accs = vec![Acc::default(); 3];
    let mut va: Vec<u64> = Vec::with_capacity(c.only_a + c.both);
    let mut vb: Vec<u64> = Vec::with_capacity(c.only_b + c.both);
    for _ in 0..trials {
        sa.reinit();
        sb.reinit();
        va.clear();
        vb.clear();
        let base = rng.next_u64();
        let lab = |k: u64, i: usize| splitmix64(base ^ (k << 62) ^ (i as u64).wrapping_mul(0x9E3779B97F4A7C15));
        for i in 0..c.only_a {
            va.push(lab(1, i));
        }
        for i in 0..c.only_b {
            vb.push(lab(2, i));
        }
        for i in 0..c.both {
            va.push(lab(3, i));
            vb.push(lab(3, i));
        }
        sa.slice(&va);
        sb.slice(&vb);
        let (wa, wb) = (sa.views(), sb.views());
        for (vi, name) in ["float", "u64", "u32"].iter().enumerate() {
            let (x, y) = (wa.get(name).unwrap(), wb.get(name).unwrap());
            let eq = x.iter().zip(y.iter()).filter(|(p, q)| p == q).count();
            accs[vi].push(eq as f64 / c.m as f64);
        }
    }
    accs
}

pub fn eval(c: &Case) -> Eval {
    let j = jaccard(c.only_a, c.only_b, c.both);
    // positions are strongly correlated after densification: only the generic variance bound J(1-J) and the empirical variance are used
    let checks: Vec<Check> = ["float view", "u64 view", "u32 view"].iter().map(|n| Check { name: format!("mean fraction of equal positions ({}) vs J", n), want: Want::Mean { mu: j, var_h: None } }).collect();
    let what = format!("{:?} m={} |A\\B|={} |B\\A|={} |A&B|={} J={:.6}", c.kind, c.m, c.only_a, c.only_b, c.both, j);
    let tests = decide_multi(&what, &checks, c.trials, c.seed, &|s, t| sample(c, s, t))?;
    let union = c.only_a + c.only_b + c.both;
    let nmax = (c.only_a + c.both).max(c.only_b + c.both);
    Ok(Report::new(j > 0.0 && j < 1.0)
        .trials(2 * c.trials)
        .resolution(tests[0].tol)
        .class(format!("{:?}", c.kind))
        .class_if(2 * nmax <= c.m, "sparse(at-least-half-the-bins-filled-by-densification)")
        .class_if(8 * union <= c.m, "very-sparse(fill<=1/8)")
        .class_if(union >= 8 * c.m, "dense(fill>=8)")
        .class_if(c.m == 1, "m=1")
        .class_if(c.only_a == 0 || c.only_b == 0, "nested"))
}

pub fn run(ctx: &Ctx) {
    ctx.set_rule("proptest generates (algorithm Opt/RevOpt with f64/f32, m from 1 upward, fill ratio |A u B|/m in {1/64 .. 50}, Jaccard fraction, split of the difference, shapes general / nested / single common item, trial seed). \
        Per trial fresh random items, both sets sketched with sketch_slice; three statistics per trial: fraction of equal positions in the float, u64 and u32 views. Oracle J = |A&B|/|A u B|. Decision: Bernstein with the generic variance J(1-J) and empirical Bernstein (positions are strongly correlated after densification), \
        delta 1e-14, confirmation on an independent seed with 4x trials. Non-trivial = 0 < J < 1. Trials come from a work budget (sparse cases are cheap and get up to 4e5 trials).");
    super::run_fixed_tier(ctx, replay);
    let (cases, max_m, work) = ctx.tier.pick((160, 512, 12_000_000), (2400, 4096, 60_000_000));
    ctx.drive("unbiased", cases, 16, 16, || strategy(max_m, work), eval);
}

pub fn replay(ctx: &Ctx, sub: &str, case: &Value) -> Result<(), String> {
    let c: Case = parse_case(case)?;
    ctx.run_fixed(sub, &c, eval);
    Ok(())
}
