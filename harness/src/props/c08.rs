//! C08 - densified one-permutation hashing is an unbiased Jaccard LSH at any fill ratio
use crate::dist::*;
use crate::fw::*;
use crate::oracle::jp::jaccard;
use crate::sk::*;
use crate::stat::Acc;
use crate::util::*;
use proptest::prelude::*;
use serde::{Deserialize, Serialize};
use serde_json::Value;

const DUMMY: SsParams = SsParams { b: F(1.001), a: F(20.0), q: 100 };

#[derive(Clone, Debug, Serialize, Deserialize)]
pub struct Case {
    pub kind: Kind,
    pub m: usize,
    pub only_a: usize,
    pub only_b: usize,
    pub both: usize,
    pub trials: u64,
    pub seed: u64,
}

fn strategy(max_m: usize, work: u64) -> impl Strategy<Value = Case> {
    let kinds = vec![Kind::OptF64, Kind::OptF32, Kind::RevF64, Kind::RevF32];
    // fill ratio |A u B| / m from 1/64 to 50
    let fill = prop::sample::select(vec![1.0 / 64.0, 1.0 / 16.0, 0.125, 0.25, 0.5, 1.0, 2.0, 8.0, 50.0]);
    (prop::sample::select(kinds), prop_oneof![1 => 1usize..8, 3 => crate::gen::m_strategy(1, max_m)], fill, 0.02f64..0.98, 0.0f64..1.0, 0u8..6, any::<u64>()).prop_map(move |(kind, m, fill, jfrac, split, shape, seed)| {
        let union = ((fill * m as f64).round() as usize).max(2);
        let mut both = ((jfrac * union as f64).round() as usize).min(union);
        let rest = union - both;
        let mut only_a = (split * rest as f64).round() as usize;
        let mut only_b = rest - only_a;
        match shape {
            0 => {
                // nested
                only_b += only_a;
                only_a = 0;
                both = both.max(1);
            }
            1 => {
                // one common item only
                if both == 0 {
                    both = 1;
                }
            }
            _ => {}
        }
        if only_a + both == 0 {
            only_a = 1;
        }
        if only_b + both == 0 {
            only_b = 1;
        }
        let n_min = (only_a + both).min(only_b + both).max(1) as u64;
        let dens_cost = match kind {
            Kind::OptF64 | Kind::OptF32 => (m as u64) * (1 + (m as u64) / n_min).min(200),
            _ => (m as u64) * 12,
        };
        let per_trial = (only_a + only_b + 2 * both) as u64 + 2 * dens_cost;
        let trials = (work / per_trial.max(1)).clamp(600, 400_000);
        Case { kind, m, only_a, only_b, both, trials, seed }
    })
}

fn sample(c: &Case, seed: u64, trials: u64) -> Vec<Acc> {
    let mut rng = SmRng::new(seed);
    let mut sa = make(c.kind, c.m, &DUMMY);
    let mut sb = make(c.kind, c.m, &DUMMY);
    let mut accs = vec![Acc::default(); 3];
    let mut va: Vec<u64> = Vec::with_capacity(c.only_a + c.both);
    let mut vb: Vec<u64> = Vec::with_capacity(c.only_b + c.both);
    for _ in 0..trials {
        sa.reinit();
        sb.reinit();
        va.clear();
        vb.clear();
        let base = rng.next_u64();
        let lab = |k: u64, i: usize| splitmix64(base ^ (k << 62) ^ (i as u64).wrapping_mul(0x9E3779B97F4A7C15));
        for i in 0..c.only_a {
            va.push(lab(1, i));
        }
        for i in 0..c.only_b {
            vb.push(lab(2, i));
        }
        for i in 0..c.both {
            va.push(lab(3, i));
            vb.push(lab(3, i));
        }
        sa.slice(&va);
        sb.slice(&vb);
        let (wa, wb) = (sa.views(), sb.views());
        for (vi, name) in ["float", "u64", "u32"].iter().enumerate() {
            let (x, y) = (wa.get(name).unwrap(), wb.get(name).unwrap());
            let eq = x.iter().zip(y.iter()).filter(|(p, q)| p == q).count();
            accs[vi].push(eq as f64 / c.m as f64);
        }
    }
    accs
}

pub fn eval(c: &Case) -> Eval {
    let j = jaccard(c.only_a, c.only_b, c.both);
    // positions are strongly correlated after densification: only the generic variance bound J(1-J) and the empirical variance are used
    let checks: Vec<Check> = ["float view", "u64 view", "u32 view"].iter().map(|n| Check { name: format!("mean fraction of equal positions ({}) vs J", n), want: Want::Mean { mu: j, var_h: None } }).collect();
    let what = format!("{:?} m={} |A\\B|={} |B\\A|={} |A&B|={} J={:.6}", c.kind, c.m, c.only_a, c.only_b, c.both, j);
    let tests = decide_multi(&what, &checks, c.trials, c.seed, &|s, t| sample(c, s, t))?;
    let union = c.only_a + c.only_b + c.both;
    let nmax = (c.only_a + c.both).max(c.only_b + c.both);
    Ok(Report::new(j > 0.0 && j < 1.0)
        .trials(2 * c.trials)
        .resolution(tests[0].tol)
        .class(format!("{:?}", c.kind))
        .class_if(2 * nmax <= c.m, "sparse(at-least-half-the-bins-filled-by-densification)")
        .class_if(8 * union <= c.m, "very-sparse(fill<=1/8)")
        .class_if(union >= 8 * c.m, "dense(fill>=8)")
        .class_if(c.m == 1, "m=1")
        .class_if(c.only_a == 0 || c.only_b == 0, "nested"))
}


// ------------------------------------------------------------------------------------------------ control variate
// The items of a trial are fresh random labels, hence exchangeable: whatever the sketcher does, each position of the sketch of
// the union U = A u B holds any given item of U with the same probability, so the fraction of positions of U's sketch holding an
// item of A & B has expectation exactly J. D = (fraction of equal positions of A's and B's sketches) - (that fraction) therefore has
// expectation E[collisions] - J, and a far smaller variance than the collision fraction itself (positions that collide are mostly the
// positions where the union holds a common item). E D = 0 is decided by empirical Bernstein; this resolves relative biases of a
// fraction of a percent in the sparse regime, where the plain mean test would need 100x the trials.
// Which item a position of U holds is read from the u64 view (observed to be the hash of the item held); the premise is verified on
// every trial (every u64 value of U's sketch must be the hash of an item of U) and the case is skipped when it does not hold.

fn sample_cv(c: &Case, seed: u64, trials: u64) -> (Vec<Acc>, bool) {
    let mut rng = SmRng::new(seed);
    let mut sa = make(c.kind, c.m, &DUMMY);
    let mut sb = make(c.kind, c.m, &DUMMY);
    let mut su = make(c.kind, c.m, &DUMMY);
    let mut accs = vec![Acc::default(); 3];
    let (mut va, mut vb, mut vu): (Vec<u64>, Vec<u64>, Vec<u64>) = (vec![], vec![], vec![]);
    let mut premise = true;
    let mut common: std::collections::HashSet<u64> = std::collections::HashSet::new();
    let mut all: std::collections::HashSet<u64> = std::collections::HashSet::new();
    for _ in 0..trials {
        sa.reinit();
        sb.reinit();
        su.reinit();
        va.clear();
        vb.clear();
        vu.clear();
        common.clear();
        all.clear();
        for i in 0..(c.only_a + c.only_b + c.both) {
            let x = rng.next_u64();
            all.insert(su.hash_of(x));
            vu.push(x);
            if i < c.only_a {
                va.push(x);
            } else if i < c.only_a + c.only_b {
                vb.push(x);
            } else {
                va.push(x);
                vb.push(x);
                common.insert(su.hash_of(x));
            }
        }
        // the union is presented in a shuffled order (no position of the stream is special)
        for i in (1..vu.len()).rev() {
            vu.swap(i, rng.below(i as u64 + 1) as usize);
        }
        sa.slice(&va);
        sb.slice(&vb);
        su.slice(&vu);
        let (wa, wb, wu) = (sa.views(), sb.views(), su.views());
        let uh = wu.get("u64").unwrap();
        if !uh.iter().all(|h| all.contains(h)) {
            premise = false;
            break;
        }
        let ctl = uh.iter().filter(|h| common.contains(h)).count() as f64 / c.m as f64;
        for (vi, name) in ["float", "u64", "u32"].iter().enumerate() {
            let (x, y) = (wa.get(name).unwrap(), wb.get(name).unwrap());
            let eq = x.iter().zip(y.iter()).filter(|(p, q)| p == q).count();
            // mapped into [0,1]: X = (D + 1) / 2, E X = 1/2 under the property
            accs[vi].push(0.5 * (eq as f64 / c.m as f64 - ctl + 1.0));
        }
    }
    (accs, premise)
}

pub fn eval_cv(c: &Case) -> Eval {
    let j = jaccard(c.only_a, c.only_b, c.both);
    let (_, premise) = sample_cv(c, c.seed ^ 0x5EED, 8);
    if !premise {
        return Ok(Report::new(false).class("u64-view-is-not-the-hash-of-the-item-held(skipped)"));
    }
    let checks: Vec<Check> = ["float view", "u64 view", "u32 view"]
        .iter()
        .map(|n| Check { name: format!("mean of (1 + fraction of equal positions ({}) - fraction of positions of the union's sketch holding a common item) / 2, which is 1/2 when the expected collision fraction is J", n), want: Want::Mean { mu: 0.5, var_h: None } })
        .collect();
    let what = format!("{:?} m={} |A\\B|={} |B\\A|={} |A&B|={} J={:.6}", c.kind, c.m, c.only_a, c.only_b, c.both, j);
    let ok_premise = std::sync::atomic::AtomicBool::new(true);
    let tests = decide_multi(&what, &checks, c.trials, c.seed, &|s, t| {
        let (a, p) = sample_cv(c, s, t);
        if !p {
            ok_premise.store(false, std::sync::atomic::Ordering::Relaxed);
            // neutral accumulators: the case is reported as skipped below
            return vec![{ let mut z = Acc::default(); z.push(0.5); z.push(0.5); z }; 3];
        }
        a
    })?;
    if !ok_premise.load(std::sync::atomic::Ordering::Relaxed) {
        return Ok(Report::new(false).class("u64-view-is-not-the-hash-of-the-item-held(skipped)"));
    }
    let union = c.only_a + c.only_b + c.both;
    let nmax = (c.only_a + c.both).max(c.only_b + c.both);
    Ok(Report::new(j > 0.0 && j < 1.0)
        .trials(3 * c.trials)
        .resolution(2.0 * tests[0].tol)
        .class(format!("{:?}", c.kind))
        .class_if(2 * nmax <= c.m, "sparse(at-least-half-the-bins-filled-by-densification)")
        .class_if(8 * union <= c.m, "very-sparse(fill<=1/8)")
        .class_if(union >= 2 * c.m, "fill>=2"))
}

fn cv_strategy(work: u64) -> impl Strategy<Value = Case> {
    let kinds = vec![Kind::OptF64, Kind::OptF32, Kind::RevF64, Kind::RevF32];
    let fill = prop::sample::select(vec![1.0 / 16.0, 0.125, 0.2, 0.35, 0.5, 0.8, 1.0, 2.0, 3.0]);
    (prop::sample::select(kinds), prop_oneof![1 => 2usize..16, 3 => 16usize..200, 1 => prop::sample::select(vec![16usize, 32, 64, 128, 256])], fill, 0.05f64..0.95, 0.0f64..1.0, any::<u64>()).prop_map(move |(kind, m, fill, jfrac, split, seed)| {
        let union = ((fill * m as f64).round() as usize).max(2);
        let both = ((jfrac * union as f64).round() as usize).clamp(1, union - 1);
        let rest = union - both;
        let only_a = (split * rest as f64).round() as usize;
        let only_b = rest - only_a;
        let n_min = (only_a + both).min(only_b + both).max(1) as u64;
        let dens_cost = match kind {
            Kind::OptF64 | Kind::OptF32 => (m as u64) * (1 + (m as u64) / n_min).min(200),
            _ => (m as u64) * 12,
        };
        let per_trial = 4 * union as u64 + 3 * dens_cost;
        let trials = (work / per_trial.max(1)).clamp(20_000, 400_000);
        Case { kind, m, only_a, only_b, both, trials, seed }
    })
}

pub fn run(ctx: &Ctx) {
    ctx.set_rule("proptest generates (algorithm Opt/RevOpt with f64/f32, m from 1 upward, fill ratio |A u B|/m in {1/64 .. 50}, Jaccard fraction, split of the difference, shapes general / nested / single common item, trial seed). \
        Per trial fresh random items, both sets sketched with sketch_slice; three statistics per trial: fraction of equal positions in the float, u64 and u32 views. Oracle J = |A&B|/|A u B|. Decision: Bernstein with the generic variance J(1-J) and empirical Bernstein (positions are strongly correlated after densification), \
        delta 1e-14, confirmation on an independent seed with 4x trials. Non-trivial = 0 < J < 1. Trials come from a work budget (sparse cases are cheap and get up to 4e5 trials). \
        Sub-check control-variate (m 2..256, fill 1/16..3): per trial the union is sketched as well; the items being fresh random labels are exchangeable, so the fraction of positions of the union's sketch that hold an item of A&B has expectation exactly J whatever the algorithm; \
        D = collision fraction - that fraction has expectation E[collisions] - J and a far smaller variance; E D = 0 is decided by empirical Bernstein (delta 1e-14, confirmation on an independent seed), 2e4 .. 4e5 trials per case. The item held by a position is read from the u64 view (verified per trial to be the hash of an item of the union; the case is skipped otherwise).");
    super::run_fixed_tier(ctx, replay);
    let (cases, max_m, work) = ctx.tier.pick((160, 512, 12_000_000), (2400, 4096, 60_000_000));
    ctx.drive("unbiased", cases, 16, 16, || strategy(max_m, work), eval);
    let (cases, work) = ctx.tier.pick((64, 60_000_000), (960, 300_000_000));
    ctx.drive("control-variate", cases, 16, 4, || cv_strategy(work), eval_cv);
}

pub fn replay(ctx: &Ctx, sub: &str, case: &Value) -> Result<(), String> {
    let c: Case = parse_case(case)?;
    if sub == "control-variate" {
        ctx.run_fixed(sub, &c, eval_cv);
        return Ok(());
    }
    ctx.run_fixed(sub, &c, eval);
    Ok(())
}
