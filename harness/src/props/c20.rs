//! C20 - SetSketch parameters survive a dump/reload and a torn file is reported (crash-point enumeration)
use crate::fw::*;
use crate::util::*;
use probminhash::setsketcher::SetSketchParams;
use proptest::prelude::*;
use serde::{Deserialize, Serialize};
use serde_json::Value;
use std::sync::atomic::{AtomicU64, Ordering};

#[derive(Clone, Debug, Serialize, Deserialize)]
pub struct Case {
    pub b: F,
    pub m: u64,
    pub a: F,
    pub q: u64,
}

/// b lies in (1,2] (documented domain), a is a positive rate between 1e-6 and 1e9 (documented values are ~ ln(m/eps)/b, i.e. 5..50)
fn b_strategy() -> impl Strategy<Value = F> {
    prop_oneof![
        3 => (1u64..1_000_000_000_000_00u64).prop_map(|k| format!("1.{:014}", k).parse::<f64>().unwrap()),
        2 => (1u64..100_000).prop_map(|k| format!("1.{:05}", k).parse::<f64>().unwrap()),
        2 => prop::sample::select(vec![1.001f64, 1.0001, 1.01, 2.0, 1.5, 1.2]),
        // random bit patterns in (1,2): 17 significant digits
        4 => (1u64..(1u64 << 52)).prop_map(|mant| f64::from_bits(0x3FF0_0000_0000_0000 | mant)),
        1 => (1u64..1000).prop_map(|k| 1.0 + k as f64 * f64::EPSILON),
    ]
    .prop_map(F)
}

fn a_strategy() -> impl Strategy<Value = F> {
    prop_oneof![
        // short decimals: k * 10^e with at most 15 significant digits, value within [1e-6, 1e9]
        3 => (1u64..1_000_000_000_000_000, -21i32..-6).prop_map(|(k, e)| format!("{}e{}", k, e).parse::<f64>().unwrap()).prop_filter("range", |x| *x >= 1e-6 && *x <= 1e9),
        2 => (1u64..100_000, -6i32..3).prop_map(|(k, e)| format!("{}e{}", k, e).parse::<f64>().unwrap()).prop_filter("range", |x| *x >= 1e-6),
        2 => prop::sample::select(vec![20.0f64, 1.0, 0.5, 13.5, 18.420680743952367]),
        // random bit patterns between 2^-20 and 2^30
        4 => (0x3EB0_0000_0000_0000u64..0x41D0_0000_0000_0000u64).prop_map(f64::from_bits),
        1 => (1.0f64..50.0),
    ]
    .prop_map(F)
}

fn int_strategy() -> impl Strategy<Value = u64> {
    prop_oneof![3 => 0u64..100_000, 2 => any::<u64>(), 1 => prop::sample::select(vec![0u64, 1, 4096, 65534, u32::MAX as u64, (1u64 << 53) - 1, 1u64 << 53, (1u64 << 53) + 1, i64::MAX as u64, i64::MAX as u64 + 1, u64::MAX - 1, u64::MAX])]
}

fn strategy() -> impl Strategy<Value = Case> {
    (b_strategy(), int_strategy(), a_strategy(), int_strategy()).prop_map(|(b, m, a, q)| Case { b, m, a, q })
}

/// number of significant decimal digits of the shortest representation that round-trips
fn sig_digits(x: f64) -> usize {
    let s = format!("{:e}", x);
    let mant = s.split('e').next().unwrap_or("");
    mant.chars().filter(|c| c.is_ascii_digit()).collect::<String>().trim_start_matches('0').len().max(1)
}

fn float_ok(name: &str, orig: f64, got: f64) -> Result<bool, Fail> {
    let short = sig_digits(orig) <= 15;
    if got.to_bits() == orig.to_bits() {
        return Ok(short);
    }
    ensure!(!short, "{} = {:e} has at most 15 significant digits but came back as {:e}", name, orig, got);
    let ulps = (got.to_bits() as i128 - orig.to_bits() as i128).abs();
    ensure!(ulps <= 1, "{} = {:e} came back as {:e} ({} units in the last place away)", name, orig, got, ulps);
    Ok(false)
}

static DIR_SEQ: AtomicU64 = AtomicU64::new(0);

struct TempDir(std::path::PathBuf);
impl TempDir {
    fn new() -> Result<TempDir, Fail> {
        TempDir::named(false)
    }
    /// `odd`: a directory name that is not valid UTF-8 (any byte string is a legal name on Linux)
    fn named(odd: bool) -> Result<TempDir, Fail> {
        // transient per-case directory, on tmpfs when available (450 000 small file operations per quick run)
        let base = if std::path::Path::new("/dev/shm").is_dir() { std::path::PathBuf::from("/dev/shm/pmh-verif-scratch") } else { verif_root().join("scratch") };
        let name = format!("c20-{}-{}", std::process::id(), DIR_SEQ.fetch_add(1, Ordering::Relaxed));
        let d = if odd {
            use std::os::unix::ffi::OsStrExt;
            let mut bytes = name.into_bytes();
            bytes.extend_from_slice(b"-caf\xe9 \xff\xfe");
            base.join(std::ffi::OsStr::from_bytes(&bytes))
        } else {
            base.join(name)
        };
        std::fs::create_dir_all(&d).map_err(|e| Fail::new(format!("harness: cannot create {}: {}", d.display(), e)))?;
        Ok(TempDir(d))
    }
}
impl Drop for TempDir {
    fn drop(&mut self) {
        let _ = std::fs::remove_dir_all(&self.0);
    }
}

pub fn eval(c: &Case) -> Eval {
    // one case in four works in a directory whose name is not valid UTF-8
    let odd_dir = c.m % 4 == 1;
    let dir = TempDir::named(odd_dir)?;
    let file = dir.0.join("parameters.json");
    let p = SetSketchParams::new(c.b.0, c.m, c.a.0, c.q);
    // missing file
    match catch(|| SetSketchParams::reload_json(&dir.0)) {
        Ok(Err(_)) => {}
        Ok(Ok(_)) => return Err(Fail::new("reload_json returned parameters although no file exists")),
        Err(pn) => return Err(Fail::new(format!("reload_json aborted on a missing file: {}", pn))),
    }
    match catch(|| p.dump_json(&dir.0)) {
        Ok(Ok(())) => {}
        Ok(Err(e)) => return Err(Fail::new(format!("dump_json failed into a fresh writable directory: {}", e))),
        Err(pn) => return Err(Fail::new(format!("dump_json aborted: {}", pn))),
    }
    let bytes = std::fs::read(&file).map_err(|e| Fail::new(format!("dump_json reported success but {} cannot be read: {}", file.display(), e)))?;
    // round trip
    let back = match catch(|| SetSketchParams::reload_json(&dir.0)) {
        Ok(Ok(b)) => b,
        Ok(Err(e)) => return Err(Fail::new(format!("reload_json fails on the file just written ({}): {}", String::from_utf8_lossy(&bytes), e))),
        Err(pn) => return Err(Fail::new(format!("reload_json aborts on the file just written ({}): {}", String::from_utf8_lossy(&bytes), pn))),
    };
    ensure!(back.get_m() == c.m, "m = {} came back as {}", c.m, back.get_m());
    ensure!(back.get_q() == c.q, "q = {} came back as {}", c.q, back.get_q());
    let sa = float_ok("a", c.a.0, back.get_a())?;
    let sb = float_ok("b", c.b.0, back.get_b())?;
    // the reloaded value must BE the same parameters, not merely show the same four numbers: everything derived from it agrees
    for prob in [0.0, 0.1, 0.5, 0.9, 1.0] {
        let (l1, h1) = p.get_jaccard_bounds(prob);
        let (l2, h2) = back.get_jaccard_bounds(prob);
        let close = |x: f64, y: f64| if sb { x.to_bits() == y.to_bits() } else { (x - y).abs() <= 1e-9 * (1.0 + x.abs()) / (c.b.0 - 1.0).min(1.0) };
        ensure!(close(l1, l2) && close(h1, h2), "get_jaccard_bounds({}) of the reloaded parameters is ({:e}, {:e}), of the dumped parameters ({:e}, {:e})", prob, l2, h2, l1, h1);
    }
    if sa && sb && c.m >= 1 && c.m <= 64 && c.q < (1u64 << 40) {
        use probminhash::setsketcher::SetSketcher;
        let mut s1 = SetSketcher::<u32, u64, fnv::FnvHasher>::new(p, Default::default());
        let mut s2 = SetSketcher::<u32, u64, fnv::FnvHasher>::new(back, Default::default());
        for x in 0..20u64 {
            s1.sketch(&(x * 7919 + c.m)).unwrap();
            s2.sketch(&(x * 7919 + c.m)).unwrap();
        }
        ensure!(s1.get_signature() == s2.get_signature() && s1.get_cardinal_stats().0.to_bits() == s2.get_cardinal_stats().0.to_bits(), "a sketcher built from the reloaded parameters gives a different sketch than one built from the dumped parameters");
        ensure!(s1.merge(&s2).is_ok(), "sketchers built from the dumped and from the reloaded parameters refuse to merge");
    }
    // a second dump over the existing (longer or shorter) file must fully replace it
    let p2 = SetSketchParams::new(1.5, 7, 2.0, 9);
    ensure!(matches!(catch(|| p2.dump_json(&dir.0)), Ok(Ok(()))), "second dump_json into the same directory failed");
    match catch(|| SetSketchParams::reload_json(&dir.0)) {
        Ok(Ok(b2)) => ensure!(b2.get_m() == 7 && b2.get_q() == 9 && b2.get_a() == 2.0 && b2.get_b() == 1.5, "after overwriting the dump with new parameters, reload returns {:?}", b2),
        other => return Err(Fail::new(format!("reload after overwriting the dump failed: {:?}", other.map(|r| r.map(|_| ()))))),
    }
    // a dump of parameters that differ only slightly from what the directory already holds must replace them too
    ensure!(matches!(catch(|| p.dump_json(&dir.0)), Ok(Ok(()))), "third dump_json into the same directory failed");
    let near = SetSketchParams::new(next_up(c.b.0), c.m, c.a.0 * (1.0 + 1e-12), c.q);
    ensure!(matches!(catch(|| near.dump_json(&dir.0)), Ok(Ok(()))), "dump_json of slightly different parameters failed");
    match catch(|| SetSketchParams::reload_json(&dir.0)) {
        Ok(Ok(b3)) => {
            float_ok("b (re-dumped one ulp above the previous dump)", near.get_b(), b3.get_b())?;
            float_ok("a (re-dumped 1e-12 relative above the previous dump)", near.get_a(), b3.get_a())?;
        }
        other => return Err(Fail::new(format!("reload after re-dumping slightly different parameters failed: {:?}", other.map(|r| r.map(|_| ()))))),
    }
    // re-dumps that differ from what the directory holds in exactly ONE of the four parameters must replace it as well
    {
        let b_alt = if c.b.0 > 1.5 { 1.25 } else { 1.75 };
        let a_alt = if c.a.0 > 1.0 { c.a.0 / 2.0 } else { c.a.0 * 2.0 };
        let variants: [(&str, SetSketchParams); 5] = [
            ("b", SetSketchParams::new(b_alt, c.m, c.a.0, c.q)),
            ("m", SetSketchParams::new(c.b.0, c.m ^ 1, c.a.0, c.q)),
            ("a", SetSketchParams::new(c.b.0, c.m, a_alt, c.q)),
            ("q", SetSketchParams::new(c.b.0, c.m, c.a.0, c.q ^ 1)),
            ("q", SetSketchParams::new(c.b.0, c.m, c.a.0, if c.q == 254 { 65534 } else { 254 })),
        ];
        for (name, v) in variants.iter() {
            ensure!(matches!(catch(|| p.dump_json(&dir.0)), Ok(Ok(()))), "dump_json failed");
            ensure!(matches!(catch(|| v.dump_json(&dir.0)), Ok(Ok(()))), "dump_json of parameters differing only in {} from the previous dump failed", name);
            match catch(|| SetSketchParams::reload_json(&dir.0)) {
                Ok(Ok(got)) => {
                    ensure!(got.get_m() == v.get_m() && got.get_q() == v.get_q(), "after re-dumping parameters that differ only in {} from the previous dump ({:?} over {:?}) reload returns {:?}", name, v, p, got);
                    float_ok("b (re-dump differing in one parameter)", v.get_b(), got.get_b())?;
                    float_ok("a (re-dump differing in one parameter)", v.get_a(), got.get_a())?;
                }
                other => return Err(Fail::new(format!("reload after a re-dump differing only in {} failed: {:?}", name, other.map(|r| r.map(|_| ()))))),
            }
        }
    }
    // restore the original dump for the crash-point enumeration
    ensure!(matches!(catch(|| p.dump_json(&dir.0)), Ok(Ok(()))), "dump_json failed");
    let bytes = std::fs::read(&file).map_err(|e| Fail::new(format!("cannot read back the dump: {}", e)))?;
    // every strict prefix as crash point
    for cut in 0..bytes.len() {
        std::fs::write(&file, &bytes[..cut]).map_err(|e| Fail::new(format!("harness: cannot write: {}", e)))?;
        match catch(|| SetSketchParams::reload_json(&dir.0)) {
            Ok(Err(_)) => {}
            Ok(Ok(got)) => return Err(Fail::new(format!("file cut to {} of {} bytes ({:?}) is accepted and yields {:?}", cut, bytes.len(), String::from_utf8_lossy(&bytes[..cut]), got))),
            Err(pn) => return Err(Fail::new(format!("file cut to {} of {} bytes ({:?}): reload_json aborted instead of returning an error: {}", cut, bytes.len(), String::from_utf8_lossy(&bytes[..cut]), pn))),
        }
    }
    Ok(Report::new(!(sa && sb))
        .class_if(sa && sb, "short-decimals-only")
        .class_if(!sa || !sb, "17-digit-float-present")
        .class_if(c.m > (1u64 << 53) || c.q > (1u64 << 53), "integer-above-2^53")
        .class_if(odd_dir, "directory-name-not-utf8")
        .class(format!("file-bytes<={}", ((bytes.len() + 19) / 20) * 20)))
}

/// child side of `missing-directory`: the working directory of this (child) process is set to a directory that holds a valid dump;
/// reloading from directories that do not exist (relative and absolute spellings) and from an existing empty directory must give Err
pub fn child(inp: &Value) -> Value {
    let scratch = std::path::PathBuf::from(inp["scratch"].as_str().unwrap_or("/nonexistent"));
    let c: Case = match serde_json::from_value(inp["case"].clone()) {
        Ok(c) => c,
        Err(_) => return serde_json::json!({"error": "bad case"}),
    };
    let mut out = serde_json::Map::new();
    if std::fs::create_dir_all(scratch.join("empty")).is_err() || std::env::set_current_dir(&scratch).is_err() {
        return serde_json::json!({"error": "cannot enter the scratch directory"});
    }
    let p = SetSketchParams::new(c.b.0, c.m, c.a.0, c.q);
    let here = std::path::PathBuf::from(".");
    out.insert("dump_ok".into(), Value::Bool(matches!(catch(|| p.dump_json(&here)), Ok(Ok(())))));
    out.insert("reload_here_ok".into(), Value::Bool(matches!(catch(|| SetSketchParams::reload_json(&here)), Ok(Ok(_)))));
    let probes: Vec<(String, std::path::PathBuf)> = vec![
        ("a relative directory that does not exist".into(), std::path::PathBuf::from("no-such-directory")),
        ("a nested relative directory that does not exist".into(), std::path::PathBuf::from("no/such/directory")),
        ("an absolute directory that does not exist".into(), scratch.join("missing-directory")),
        ("an existing empty directory".into(), scratch.join("empty")),
        ("the empty path".into(), std::path::PathBuf::from("")),
    ];
    let mut bad = vec![];
    for (name, path) in probes {
        match catch(|| SetSketchParams::reload_json(&path)) {
            Ok(Err(_)) => {}
            // the empty path designates the working directory on some platforms' join semantics: "" joined with the file name IS the file
            // in the working directory, so Ok is legitimate there and not judged
            Ok(Ok(_)) if name == "the empty path" => {}
            Ok(Ok(got)) => bad.push(format!("reload_json from {} ({}) returned parameters {:?} while the working directory holds a dump", name, path.display(), got)),
            Err(pn) => bad.push(format!("reload_json from {} ({}) aborted: {}", name, path.display(), pn)),
        }
    }
    out.insert("bad".into(), serde_json::json!(bad));
    Value::Object(out)
}

fn missing_directory(ctx: &Ctx, c: &Case) {
    let dir = match TempDir::new() {
        Ok(d) => d,
        Err(f) => {
            ctx.infra(f.reason);
            return;
        }
    };
    let input = serde_json::json!({"scratch": dir.0.to_string_lossy(), "case": c});
    match run_child("c20", &input, std::time::Duration::from_secs(120), &[]) {
        ChildOutcome::Done(v) => {
            if v.get("error").is_some() || v["dump_ok"] != Value::Bool(true) || v["reload_here_ok"] != Value::Bool(true) {
                ctx.infra(format!("C20 missing-directory child could not set up its directory: {}", v));
                return;
            }
            let bad: Vec<String> = serde_json::from_value(v["bad"].clone()).unwrap_or_default();
            if let Some(b) = bad.first() {
                ctx.violation("missing-directory", c, b);
                return;
            }
            ctx.record("missing-directory", c, &Report::new(true).class("working-directory-holds-a-dump"), true);
        }
        ChildOutcome::Crashed(w, e) => ctx.violation("missing-directory", c, &format!("the child process reloading from missing directories terminated abnormally ({}): {}", w, e)),
        ChildOutcome::Timeout => ctx.infra("C20 missing-directory child timed out"),
        ChildOutcome::Infra(e) => ctx.infra(e),
    }
}

pub fn run(ctx: &Ctx) {
    ctx.set_rule("proptest generates (b, m, a, q): b in (1,2] and a in [1e-6, 1e9] from short decimals (<= 15 digits), typical parameter values, random bit patterns (17 digits), values 1 + k*eps; integers over all of u64 incl. 2^53 +- 1 and u64::MAX. \
        Oracle: dump into a private directory (one case in four: a directory whose name is not valid UTF-8) then reload gives m and q exactly, a and b bit-exactly when their shortest decimal form has <= 15 significant digits and within 1 ulp otherwise; a second dump replaces the file, also when it differs from the previous one in a single parameter (b, m, a or q alone) or by one ulp; \
        then EVERY strict prefix of the written file (0..len-1 bytes) is written back as the crash point and reload_json must return Err (not Ok, not a panic); a missing file must give Err; sub-check missing-directory: in a child process whose working directory holds a valid dump, reloading from directories that do not exist (relative, nested, absolute) and from an existing empty directory must give Err. \
        Non-trivial = at least one float needs 17 digits. Distinct = distinct parameter tuple. The crash-point enumeration per generated file is exhaustive.");
    ctx.assume("b is generated inside its documented interval (1,2] and a between 1e-6 and 1e9: for magnitudes like 1e-143 serde_json's default number parser is 1 ulp off even for 15-digit decimals, which is outside what the parameters can meaningfully be");
    super::run_fixed_tier(ctx, replay);
    let cases = ctx.tier.pick(40_000, 800_000);
    ctx.drive("roundtrip-and-prefixes", cases, 16, 600, strategy, eval);
    // a directory that does not exist, while the working directory of the process holds a valid dump (child processes: the working
    // directory is process-wide state)
    let n = ctx.tier.pick(6, 40);
    let mut r = SmRng::new(mix(&[ctx.seed, 0xC20]));
    for _ in 0..n {
        let c = Case { b: F(1.0 + (1 + r.below(1000)) as f64 / 1000.0), m: 1 + r.below(100_000), a: F(0.5 + r.below(60) as f64), q: 1 + r.below(70_000) };
        missing_directory(ctx, &c);
        if ctx.n_violations() > 0 {
            break;
        }
    }
}

pub fn replay(ctx: &Ctx, sub: &str, case: &Value) -> Result<(), String> {
    let c: Case = parse_case(case)?;
    if sub == "missing-directory" {
        missing_directory(ctx, &c);
        return Ok(());
    }
    ctx.run_fixed(sub, &c, eval);
    Ok(())
}

