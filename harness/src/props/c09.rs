//! C09 - densification only copies populated bins, is idempotent, and terminates
use crate::fw::*;
use crate::gen::*;
use crate::sk::*;
use crate::util::*;
use proptest::prelude::*;
use serde::{Deserialize, Serialize};
use serde_json::Value;
use std::collections::{HashMap, HashSet};

#[derive(Clone, Debug, Serialize, Deserialize)]
pub enum Op {
    Sketch(u16),
    Slice(Vec<u16>),
    End,
    Reinit,
    Views,
}

#[derive(Clone, Debug, Serialize, Deserialize)]
pub struct Case {
    pub kind: Kind,
    pub m: usize,
    /// size of the companion sketcher of the other algorithm (u32-view consistency across sizes and algorithms)
    pub m2: usize,
    pub pool: Vec<u64>,
    pub ops: Vec<Op>,
    /// per pool item: also member of the overlapping second set B (agreement sub-property)
    pub in_b: Vec<bool>,
}

fn dens_kind() -> impl Strategy<Value = Kind> {
    prop::sample::select(vec![Kind::OptF64, Kind::OptF32, Kind::RevF64, Kind::RevF32, Kind::OptF64NoHash, Kind::RevF64NoHash])
}

fn op_strategy(pool: usize) -> impl Strategy<Value = Op> {
    prop_oneof![
        6 => any::<u16>().prop_map(Op::Sketch),
        3 => prop::collection::vec(any::<u16>(), 0..(pool.min(40) + 1)).prop_map(Op::Slice),
        3 => Just(Op::End),
        1 => Just(Op::Reinit),
        2 => Just(Op::Views),
    ]
}

fn strategy(max_m: usize) -> impl Strategy<Value = Case> {
    (dens_kind(), crate::gen::m_strategy(1, max_m), crate::gen::m_strategy(1, max_m), 0u8..10).prop_flat_map(move |(kind, m, m2, shape)| {
        let pmax = match shape {
            0..=3 => (m / 8).max(2),
            4..=6 => m.max(2),
            _ => (4 * m).clamp(2, 3000),
        };
        item_set(1, pmax).prop_flat_map(move |pool| {
            let pl = pool.len();
            (prop_oneof![6 => any::<u16>().prop_map(Op::Sketch), 1 => op_strategy(pl)], prop::collection::vec(op_strategy(pl), 0..23), prop::collection::vec(any::<bool>(), pl)).prop_map(move |(first, mut ops, in_b)| {
                ops.insert(0, first);
                Case { kind, m, m2, pool: pool.clone(), ops, in_b }
            })
        })
    })
}

fn other_alg(k: Kind) -> Kind {
    match k {
        Kind::OptF64 => Kind::RevF64,
        Kind::OptF32 => Kind::RevF32,
        Kind::RevF64 => Kind::OptF64,
        Kind::OptF64NoHash => Kind::RevF64NoHash,
        Kind::RevF64NoHash => Kind::OptF64NoHash,
        _ => Kind::OptF32,
    }
}

const DUMMY: SsParams = SsParams { b: F(1.001), a: F(20.0), q: 100 };

/// check the published views of a finished sketcher; feeds the u64 -> u32 and u64 -> float maps
fn check_views(what: &str, s: &dyn Sk, streamed_hashes: &HashSet<u64>, u32map: &mut HashMap<u64, u64>, flmap: &mut HashMap<(bool, u64), u64>, f32kind: bool, murmur_agree: &mut bool) -> Result<(), Fail> {
    let v = match catch(|| s.views()) {
        Ok(v) => v,
        Err(p) => return Err(Fail::new(format!("{}: reading the views of a finished sketcher failed: {}", what, p))),
    };
    let u64v = v.get("u64").unwrap();
    let u32v = v.get("u32").unwrap();
    let flv = v.get("float").unwrap();
    for k in 0..u64v.len() {
        ensure!(streamed_hashes.contains(&u64v[k]), "{}: position {} of the u64 view holds {:#x}, not the hash of any item streamed since the last reinit", what, k, u64v[k]);
        if let Some(prev) = u32map.insert(u64v[k], u32v[k]) {
            ensure!(prev == u32v[k], "{}: u32 view is not a function of the u64 view: {:#x} maps to {:#x} and to {:#x}", what, u64v[k], prev, u32v[k]);
        }
        if let Some(prev) = flmap.insert((f32kind, u64v[k]), flv[k]) {
            ensure!(prev == flv[k], "{}: positions with equal u64 value {:#x} carry different float values (bits {:#x} vs {:#x})", what, u64v[k], prev, flv[k]);
        }
        let mm = murmur3::murmur3_32(&mut std::io::Cursor::new(u64v[k].to_ne_bytes()), 127).unwrap() as u64;
        if mm != u32v[k] {
            *murmur_agree = false;
        }
    }
    Ok(())
}

pub fn eval(c: &Case) -> Eval {
    let m = c.m;
    // s1 follows the history as given; s2 replaces every sketch_slice by item-wise sketch + end_sketch
    let mut s1 = make(c.kind, m, &DUMMY);
    let mut s2 = make(c.kind, m, &DUMMY);
    let mut streamed: HashSet<u64> = HashSet::new(); // hashes of the items streamed since last reinit
    let mut streamed_items: Vec<u64> = vec![];
    let mut u32map: HashMap<u64, u64> = HashMap::new();
    let mut flmap: HashMap<(bool, u64), u64> = HashMap::new();
    let mut murmur_agree = true;
    let f32k = c.kind.is_f32();
    let (mut n_dens_steps, mut n_filled, mut n_idem, mut empty_finish, mut sketch_after_finish) = (0usize, 0usize, 0usize, false, false);
    let mut finished_once = false;

    // one finishing step on s2 with snapshot checks
    let finish_checked = |s2: &mut Box<dyn Sk>, step: usize, n_filled: &mut usize| -> Result<(), Fail> {
        let before = s2.raw().unwrap();
        s2.finish();
        let after = s2.raw().unwrap();
        ensure!(after.nb_empty == 0 && after.init.iter().all(|x| *x), "step {}: after finishing {} bins are still reported empty", step, after.nb_empty);
        let populated: HashSet<(u64, u64)> = (0..m).filter(|k| before.init[*k]).map(|k| (before.fl[k], before.hashes[k])).collect();
        for k in 0..m {
            if before.init[k] {
                ensure!(before.fl[k] == after.fl[k] && before.hashes[k] == after.hashes[k], "step {}: finishing modified bin {} which had received an item ({:#x} -> {:#x})", step, k, before.hashes[k], after.hashes[k]);
            } else {
                *n_filled += 1;
                ensure!(populated.contains(&(after.fl[k], after.hashes[k])), "step {}: empty bin {} was filled with (value bits {:#x}, hash {:#x}) which is not the pair of any populated bin", step, k, after.fl[k], after.hashes[k]);
            }
        }
        Ok(())
    };

    for (step, op) in c.ops.iter().enumerate() {
        let nothing_populated = s1.raw().unwrap().nb_empty == m as i64;
        match op {
            Op::Sketch(i) => {
                let x = c.pool[idx16(*i, c.pool.len())];
                if s1.raw().unwrap().nb_empty == 0 && finished_once {
                    sketch_after_finish = true;
                }
                s1.sketch(x);
                s2.sketch(x);
                streamed.insert(s1.hash_of(x));
                streamed_items.push(x);
            }
            Op::Slice(_) | Op::End => {
                let xs: Vec<u64> = match op {
                    Op::Slice(v) => v.iter().map(|i| c.pool[idx16(*i, c.pool.len())]).collect(),
                    _ => vec![],
                };
                if nothing_populated && xs.is_empty() {
                    // degenerate stream: finishing must report failure (panic / Err), or at least never publish a sketch; hanging is
                    // caught by the watchdog (termination is part of the property)
                    empty_finish = true;
                    let r = catch(|| match op {
                        Op::Slice(_) => s1.slice(&[]),
                        _ => {
                            s1.finish();
                            true
                        }
                    });
                    if let Ok(true) = r {
                        // returned normally: then the views must still refuse, a published sketch would hold placeholders
                        if let Ok(v) = catch(|| s1.views()) {
                            return Err(Fail::new(format!("step {}: finishing a sketcher that received no item returned normally and the sketcher publishes a sketch (u64 view {:x?})", step, &v.get("u64").unwrap()[..m.min(4)])));
                        }
                    }
                    // after the reported failure the sketcher may be in an unspecified state, but it still received no item: finishing it
                    // again may fail again or not, yet it must never publish a sketch (there is no streamed item a position could hold)
                    let _ = catch(|| s1.finish());
                    if let Ok(v) = catch(|| s1.views()) {
                        return Err(Fail::new(format!("step {}: after finishing a sketcher that received no item was reported as a failure, a second finishing step makes it publish a sketch although still no item was streamed (u64 view {:x?})", step, &v.get("u64").unwrap()[..m.min(4)])));
                    }
                    break;
                }
                for x in &xs {
                    streamed.insert(s1.hash_of(*x));
                    streamed_items.push(*x);
                }
                match op {
                    Op::Slice(_) => {
                        ensure!(s1.slice(&xs), "step {}: sketch_slice returned an error", step);
                        for x in &xs {
                            s2.sketch(*x);
                        }
                    }
                    _ => s1.finish(),
                }
                let was_finished = s2.raw().unwrap().nb_empty == 0;
                finish_checked(&mut s2, step, &mut n_filled)?;
                n_dens_steps += 1;
                finished_once = true;
                if was_finished {
                    n_idem += 1;
                }
                // idempotence of end_sketch on s2
                let snap = s2.raw().unwrap();
                s2.finish();
                ensure!(s2.raw().unwrap() == snap, "step {}: a second end_sketch changed the sketch", step);
            }
            Op::Reinit => {
                s1.reinit();
                s2.reinit();
                streamed.clear();
                streamed_items.clear();
                finished_once = false;
            }
            Op::Views => {
                let r = s1.raw().unwrap();
                if r.nb_empty == 0 {
                    check_views(&format!("step {}", step), s1.as_ref(), &streamed, &mut u32map, &mut flmap, f32k, &mut murmur_agree)?;
                } else if let Ok(v) = catch(|| s1.views()) {
                    // unfinished sketcher: the getters refuse by design; if they answer, the answer must still be valid
                    for h in v.get("u64").unwrap() {
                        ensure!(streamed.contains(h), "step {}: unfinished sketcher publishes {:#x} which is not the hash of a streamed item", step, h);
                    }
                }
            }
        }
        // sketch_slice == item-wise sketch + end_sketch, on every state
        let (r1, r2) = (s1.raw().unwrap(), s2.raw().unwrap());
        ensure!(r1 == r2, "step {} ({:?}): sketch_slice and item-wise sketch + end_sketch diverge (first differing bin {:?})", step, op, (0..m).find(|k| r1.hashes[*k] != r2.hashes[*k] || r1.fl[*k] != r2.fl[*k] || r1.init[*k] != r2.init[*k]));
    }

    // companion checks on the final streamed set (if any)
    let mut agree_positions = 0usize;
    if !streamed_items.is_empty() && !empty_finish {
        // (a) other algorithm, other size: u32 must be the same function of u64
        let mut t = make(other_alg(c.kind), c.m2, &DUMMY);
        ensure!(t.slice(&streamed_items), "slice failed");
        let mut flmap2: HashMap<(bool, u64), u64> = HashMap::new();
        check_views("companion sketcher", t.as_ref(), &streamed, &mut u32map, &mut flmap2, f32k, &mut murmur_agree)?;
        // (b) same algorithm and size over an overlapping set B: positions agreeing in u64 agree in float and u32
        let set_a: Vec<u64> = streamed_items.clone();
        let set_b: Vec<u64> = c.pool.iter().zip(c.in_b.iter()).filter(|p| *p.1).map(|p| *p.0).collect();
        if !set_b.is_empty() {
            let mut a = make(c.kind, m, &DUMMY);
            let mut b = make(c.kind, m, &DUMMY);
            ensure!(a.slice(&set_a) && b.slice(&set_b), "slice failed");
            let (va, vb) = (a.views(), b.views());
            for k in 0..m {
                if va.get("u64").unwrap()[k] == vb.get("u64").unwrap()[k] {
                    agree_positions += 1;
                    ensure!(va.get("float").unwrap()[k] == vb.get("float").unwrap()[k], "two sketches agree at position {} in the u64 view but not in the float view", k);
                    ensure!(va.get("u32").unwrap()[k] == vb.get("u32").unwrap()[k], "two sketches agree at position {} in the u64 view but not in the u32 view", k);
                }
            }
        }
    }
    Ok(Report::new(n_dens_steps > 0 && n_filled > 0)
        .class(format!("{:?}", c.kind))
        .class_if(n_filled > 0, "densification-filled-bins")
        .class_if(n_idem > 0, "finish-on-finished-sketch")
        .class_if(empty_finish, "finish-on-empty-stream")
        .class_if(sketch_after_finish, "sketch-after-finish")
        .class_if(agree_positions > 0, "two-sketches-agreeing-positions")
        .class_if(murmur_agree && !u32map.is_empty(), "u32-view-equals-murmur3_32-seed127")
        .class_if(m == 1, "m=1"))
}

/// Items with exactly the same per-item value r (found in a window of consecutive labels through one-bin sketches; only f32 sketches
/// have such pairs at this window size): sketches of {x, y}, {y, x}, {x}, {y} and {x, y, fillers} for several sizes. Over all positions of
/// all these sketches the u32 view and the float view must be functions of the u64 view (the same u64 value always with the same u32
/// and the same float), although different u64 values now carry equal floats.
pub fn eval_equal_r(c: &super::c04::TieCase) -> Eval {
    use std::collections::HashMap;
    let mut seen: HashMap<u64, u64> = HashMap::new();
    let mut pairs: Vec<(u64, u64, u64)> = vec![];
    let mut rs: Vec<(u64, u64)> = Vec::with_capacity(c.window as usize);
    for i in 0..c.window as u64 {
        let x = c.base.wrapping_add(i);
        let r = super::c04::single_r(c.kind, x);
        rs.push((r, x));
        if let Some(y) = seen.insert(r, x) {
            pairs.push((r, y, x));
        }
    }
    let ss = SsParams { b: F(1.001), a: F(20.0), q: 100 };
    let mut checked = 0;
    for (r, x, y) in pairs.iter().take(6) {
        let fill: Vec<u64> = rs.iter().filter(|p| p.0 > *r).take(c.fillers as usize).map(|p| p.1).collect();
        let mut with_fill = vec![*x, *y];
        with_fill.extend_from_slice(&fill);
        let sets: Vec<Vec<u64>> = vec![vec![*x, *y], vec![*y, *x], vec![*x], vec![*y], with_fill];
        let mut to_u32: HashMap<u64, u64> = HashMap::new();
        let mut to_fl: HashMap<u64, u64> = HashMap::new();
        for m in [1usize, 2, 3, 4, 5, 8, 16] {
            for set in sets.iter() {
                let mut s = make(c.kind, m, &ss);
                ensure!(s.slice(set), "slice refused");
                let v = s.views();
                let (fl, u64v, u32v) = (v.get("float").unwrap(), v.get("u64").unwrap(), v.get("u32").unwrap());
                for k in 0..m {
                    if let Some(prev) = to_u32.insert(u64v[k], u32v[k]) {
                        ensure!(prev == u32v[k], "{:?}: items {} and {} have the same value r; in the sketch of {:?} with m = {} position {} holds the u64 value {:#x} with the u32 value {:#x}, elsewhere the same u64 value carries the u32 value {:#x}: the u32 view is not a function of the u64 view", c.kind, x, y, set, m, k, u64v[k], u32v[k], prev);
                    }
                    if let Some(prev) = to_fl.insert(u64v[k], fl[k]) {
                        ensure!(prev == fl[k], "{:?}: items {} and {} have the same value r; in the sketch of {:?} with m = {} position {} holds the u64 value {:#x} with float bits {:#x}, elsewhere {:#x}", c.kind, x, y, set, m, k, u64v[k], fl[k], prev);
                    }
                }
            }
        }
        checked += 1;
    }
    Ok(Report::new(checked > 0).class(format!("{:?}", c.kind)).class_if(checked > 0, "equal-r-pair-found").class_if(checked == 0, "no-equal-r-pair-in-window"))
}

pub fn run(ctx: &Ctx) {
    ctx.set_rule("proptest generates (algorithm Opt/RevOpt, f64/f32, m, companion size m2, pool of distinct items sized m/8 | m | 4m, history of 1..23 operations Sketch(x) | Slice(xs, possibly empty) | End | Reinit | Views, a second overlapping set). \
        Two sketchers run in lock-step (one replaces every sketch_slice by item-wise sketch + end_sketch) and their raw states (guarded hook) must stay identical; around each finishing step: populated bins untouched, every other bin receives the (value, hash) pair \
        of a populated bin, no empty bin remains, a second end_sketch changes nothing; published u64 positions are hashes of items streamed since the last reinit; u32 is a function of u64 across positions, both algorithms and two sizes; equal u64 => equal float; \
        two same-size sketches of overlapping sets that agree at a position in u64 agree in float and u32. Finishing with no item streamed must report failure (panic/Err) or at least never publish a sketch; a case exceeding the 45 s watchdog is reported as non-termination. \
        Non-trivial = at least one finishing step that filled at least one empty bin. Sub-check equal-r-views: pairs of items with exactly the same per-item value (found in a window of 40 000 / 120 000 consecutive labels; f32 sketches) are sketched alone, together in both orders and with fillers for m in {1,2,3,4,5,8,16}: over all positions of all these sketches the u32 and float views must be functions of the u64 view.");
    ctx.assume("sketching more items into an already finished sketcher is exercised, but only the claims that stay meaningful there are asserted (positions hold streamed hashes, slice == item-wise + end, idempotence)");
    ctx.assume("the 45 s watchdog is used as the non-termination signal because termination is what the property claims; the same work normally takes microseconds");
    super::run_fixed_tier(ctx, replay);
    let (cases, max_m) = ctx.tier.pick((300_000, 256), (3_000_000, 2048));
    ctx.drive("history", cases, 16, 2000, || strategy(max_m), eval);
    // very large, almost empty sketches (every empty bin needs ~m/n probes): finishing must still fill every bin
    let (cases, mmax) = ctx.tier.pick((6, 90_000usize), (48, 200_000usize));
    ctx.drive("huge-sparse", cases, 6, 2, move || huge_strategy(mmax), eval);
    // different items with exactly equal float values: the u32 and float views must still be functions of the u64 view
    let (cases, window) = ctx.tier.pick((48, 40_000), (960, 120_000));
    ctx.drive("equal-r-views", cases, 16, 8, || super::c04::tie_strategy(window), eval_equal_r);
}

fn huge_strategy(mmax: usize) -> impl Strategy<Value = Case> {
    (dens_kind(), 66_000usize..mmax, 1usize..4, any::<u64>()).prop_map(|(kind, m, n, seed)| {
        let pool: Vec<u64> = (0..n as u64).map(|i| splitmix64(seed.wrapping_add(i))).collect();
        let mut ops: Vec<Op> = (0..n).map(|i| Op::Sketch(((i * 65536) / n) as u16)).collect();
        ops.push(Op::End);
        ops.push(Op::Views);
        Case { kind, m, m2: 8, pool, ops, in_b: vec![true; n] }
    })
}



pub fn replay(ctx: &Ctx, sub: &str, case: &Value) -> Result<(), String> {
    if sub == "equal-r-views" {
        let c: super::c04::TieCase = parse_case(case)?;
        ctx.run_fixed(sub, &c, eval_equal_r);
        return Ok(());
    }
    let c: Case = parse_case(case)?;
    ctx.run_fixed(sub, &c, eval);
    Ok(())
}

