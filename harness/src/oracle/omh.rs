//! exact order-min-hash collision probability.
//! Definition (Marcais et al. 2019): rank all (element, occurrence-number) pairs of both sequences uniformly at random;
//! each sequence keeps its l lowest ranked pairs and reads them in sequence order; collision iff the two words are equal.
use crate::util::SmRng;
use std::collections::HashMap;

pub struct Omh {
    l: usize,
    /// universe of pairs; for each: index in s1 (if present), index in s2 (if present)
    in1: Vec<Option<usize>>,
    in2: Vec<Option<usize>>,
    s1: Vec<u32>,
    s2: Vec<u32>,
    memo: HashMap<(u64, u64), f64>,
    pub states: usize,
    cap: usize,
    pub overflow: bool,
}

fn pairs(seq: &[u32]) -> Vec<(u32, u32)> {
    let mut cnt: HashMap<u32, u32> = HashMap::new();
    seq.iter()
        .map(|e| {
            let c = cnt.entry(*e).or_insert(0);
            *c += 1;
            (*e, *c)
        })
        .collect()
}

impl Omh {
    pub fn new(s1: &[u32], s2: &[u32], l: usize, cap: usize) -> Omh {
        assert!(s1.len() <= 64 && s2.len() <= 64 && s1.len() >= l && s2.len() >= l);
        let p1 = pairs(s1);
        let p2 = pairs(s2);
        let mut uni: Vec<(u32, u32)> = p1.iter().chain(p2.iter()).cloned().collect();
        uni.sort_unstable();
        uni.dedup();
        let in1 = uni.iter().map(|p| p1.iter().position(|q| q == p)).collect();
        let in2 = uni.iter().map(|p| p2.iter().position(|q| q == p)).collect();
        Omh { l, in1, in2, s1: s1.to_vec(), s2: s2.to_vec(), memo: HashMap::new(), states: 0, cap, overflow: false }
    }

    fn word(seq: &[u32], mask: u64) -> Vec<u32> {
        (0..seq.len()).filter(|i| mask >> i & 1 == 1).map(|i| seq[i]).collect()
    }

    /// masks are over sequence indices
    fn rec(&mut self, a1: u64, a2: u64) -> f64 {
        let (c1, c2) = (a1.count_ones() as usize, a2.count_ones() as usize);
        if c1 == self.l && c2 == self.l {
            return if Self::word(&self.s1, a1) == Self::word(&self.s2, a2) { 1.0 } else { 0.0 };
        }
        if let Some(v) = self.memo.get(&(a1, a2)) {
            return *v;
        }
        if self.states >= self.cap {
            self.overflow = true;
            return 0.0;
        }
        self.states += 1;
        let mut total = 0.0;
        let mut nrel = 0usize;
        for u in 0..self.in1.len() {
            let (i1, i2) = (self.in1[u], self.in2[u]);
            let processed = i1.map_or(false, |i| a1 >> i & 1 == 1) || i2.map_or(false, |i| a2 >> i & 1 == 1);
            if processed {
                continue;
            }
            let rel1 = i1.is_some() && c1 < self.l;
            let rel2 = i2.is_some() && c2 < self.l;
            if !rel1 && !rel2 {
                continue;
            }
            nrel += 1;
            let n1 = if rel1 { a1 | 1u64 << i1.unwrap() } else { a1 };
            let n2 = if rel2 { a2 | 1u64 << i2.unwrap() } else { a2 };
            total += self.rec(n1, n2);
            if self.overflow {
                return 0.0;
            }
        }
        let v = total / nrel as f64;
        self.memo.insert((a1, a2), v);
        v
    }

    /// exact probability, or None when the state cap was hit
    pub fn probability(&mut self) -> Option<f64> {
        let v = self.rec(0, 0);
        if self.overflow {
            None
        } else {
            Some(v)
        }
    }

    /// Monte-Carlo evaluation of the definition itself (uniform random ranks): (estimate, samples)
    pub fn monte_carlo(&self, samples: u64, seed: u64) -> f64 {
        let mut rng = SmRng::new(seed);
        let nu = self.in1.len();
        let mut hits = 0u64;
        let mut ranks = vec![0u64; nu];
        let mut v1: Vec<(u64, usize)> = Vec::new();
        let mut v2: Vec<(u64, usize)> = Vec::new();
        for _ in 0..samples {
            for r in ranks.iter_mut() {
                *r = rng.next_u64();
            }
            v1.clear();
            v2.clear();
            for u in 0..nu {
                if let Some(i) = self.in1[u] {
                    v1.push((ranks[u], i));
                }
                if let Some(i) = self.in2[u] {
                    v2.push((ranks[u], i));
                }
            }
            v1.sort_unstable();
            v2.sort_unstable();
            let mut i1: Vec<usize> = v1[..self.l].iter().map(|x| x.1).collect();
            let mut i2: Vec<usize> = v2[..self.l].iter().map(|x| x.1).collect();
            i1.sort_unstable();
            i2.sort_unstable();
            if i1.iter().map(|i| self.s1[*i]).eq(i2.iter().map(|i| self.s2[*i])) {
                hits += 1;
            }
        }
        hits as f64 / samples as f64
    }
}

#[cfg(test)]
mod tests {
    use super::*;
    #[test]
    fn small() {
        // pattern 1 of the repository tests: l=1: the lowest pair must be the same element
        let mut o = Omh::new(&[0, 0, 1, 2], &[0, 1, 1, 2], 1, 1 << 20);
        let p = o.probability().unwrap();
        assert!((p - 0.7).abs() < 1e-12, "{}", p);
    }
}
