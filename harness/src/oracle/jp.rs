//! exact probability-Jaccard index J_P of two weighted sets (Moulton & Jiang), independent of the crate
//!   J_P = sum over d with both weights > 0 of 1 / sum_{d'} max(wA_{d'}/wA_d, wB_{d'}/wB_d)

/// compensated (Neumaier) summation
pub fn ksum(it: impl Iterator<Item = f64>) -> f64 {
    let (mut s, mut c) = (0.0f64, 0.0f64);
    for x in it {
        let t = s + x;
        if s.abs() >= x.abs() {
            c += (s - t) + x;
        } else {
            c += (x - t) + s;
        }
        s = t;
    }
    s + c
}

/// wa, wb: weights over a common universe (0 = absent)
pub fn jp(wa: &[f64], wb: &[f64]) -> f64 {
    assert_eq!(wa.len(), wb.len());
    let n = wa.len();
    ksum((0..n).filter(|d| wa[*d] > 0.0 && wb[*d] > 0.0).map(|d| {
        let den = ksum((0..n).map(|e| (wa[e] / wa[d]).max(wb[e] / wb[d])));
        1.0 / den
    }))
}

/// plain Jaccard of sizes
pub fn jaccard(only_a: usize, only_b: usize, both: usize) -> f64 {
    let u = only_a + only_b + both;
    if u == 0 {
        return 0.0;
    }
    both as f64 / u as f64
}

#[cfg(test)]
mod tests {
    use super::*;
    #[test]
    fn basics() {
        assert!((jp(&[1.0, 2.0, 3.0], &[2.0, 4.0, 6.0]) - 1.0).abs() < 1e-15);
        assert_eq!(jp(&[1.0, 0.0], &[0.0, 1.0]), 0.0);
        // equal weights: J_P = J
        assert!((jp(&[1.0, 1.0, 0.0], &[0.0, 1.0, 1.0]) - 1.0 / 3.0).abs() < 1e-15);
    }
}
