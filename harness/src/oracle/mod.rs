// independent oracles
