//! independent oracles (none of them shares code with the crate under test)
pub mod jp;
pub mod omh;
pub mod setsketch_coll;
