//! exact collision probability of two SetSketch registers at one position (independent of the crate).
//!
//! Model (SetSketch1): every item contributes an independent Exp(a) value to every position; the register is
//!   K = clamp(floor(1 - log_b X), 0, kmax),  X = minimum over the items of the set,  kmax = min(q+1, max of register type)
//! i.e. K = 0 for X > 1, K = k for X in (b^-k, b^(1-k)], K = kmax for X <= b^(1-kmax).
//! For A, B with n_u = |A\B|, n_v = |B\A|, n_w = |A&B|:  P(X_A > s, X_B > t) = exp(-a (n_u s + n_v t + n_w max(s,t))).

fn surv(a: f64, nu: f64, nv: f64, nw: f64, s: f64, t: f64) -> f64 {
    if s.is_infinite() || t.is_infinite() {
        // X > inf has probability 0 unless the set is empty (then X = inf and the event "X > inf" is still false, but
        // for an empty set we never use an infinite lower end because its register is 0: handled by the caller)
        return 0.0;
    }
    (-a * (nu * s + nv * t + nw * s.max(t))).exp()
}

/// probability that both minima fall in (lo, hi]
fn both_in(a: f64, nu: f64, nv: f64, nw: f64, lo: f64, hi: f64) -> f64 {
    let p = surv(a, nu, nv, nw, lo, lo) - surv(a, nu, nv, nw, hi, lo) - surv(a, nu, nv, nw, lo, hi) + surv(a, nu, nv, nw, hi, hi);
    p.max(0.0)
}

pub fn collision_probability(b: f64, a: f64, kmax: u64, nu: u64, nv: u64, nw: u64) -> f64 {
    let (nu, nv, nw) = (nu as f64, nv as f64, nw as f64);
    let na = nu + nw;
    let nb = nv + nw;
    // empty sides: register is identically 0
    if na == 0.0 && nb == 0.0 {
        return 1.0;
    }
    if na == 0.0 {
        return (-a * nb).exp(); // P(X_B > 1)
    }
    if nb == 0.0 {
        return (-a * na).exp();
    }
    let lnb = (b - 1.0).ln_1p();
    let ntot = nu + nv + nw;
    if kmax == 0 {
        return 1.0;
    }
    // bucket 0: both > 1
    let mut p = surv(a, nu, nv, nw, 1.0, 1.0);
    // buckets 1 .. kmax-1 : (b^-k, b^(1-k)]
    // Only the k with a * nmin * b^-k <= 800 (something survives) and a * ntot * b^(1-k) >= 1e-18 (mass left) matter.
    // For b extremely close to 1 that range still holds ~48/ln b buckets; the summand is then a smooth function of k
    // (relative change ln b per step), so blocks of `stride` consecutive buckets are summed by the midpoint rule
    // (relative error of order (stride * ln b)^2 <= 1e-8).
    let nmin = na.min(nb);
    let k_lo = if a * nmin > 800.0 { (((a * nmin / 800.0).ln() / lnb).floor() as u64).max(1) } else { 1 };
    let k_hi_f = ((a * ntot * 1e18).ln() / lnb + 1.0).ceil();
    let k_hi = if k_hi_f < 1.0 { 1 } else if k_hi_f >= kmax as f64 { kmax } else { k_hi_f as u64 }; // exclusive
    let stride: u64 = if lnb < 1e-5 { ((1e-4 / lnb) as u64).max(1) } else { 1 };
    let mut k = k_lo.min(kmax);
    while k < k_hi {
        let len = stride.min(k_hi - k);
        let mid = k + len / 2;
        let hi = (-(mid as f64 - 1.0) * lnb).exp();
        let lo = (-(mid as f64) * lnb).exp();
        p += len as f64 * both_in(a, nu, nv, nw, lo, hi);
        k += len;
    }
    // clamp bucket: both <= b^(1-kmax)
    let h = (-(kmax as f64 - 1.0) * lnb).exp();
    if a * ntot * h >= 1e-18 {
        let top = 1.0 - surv(a, nu, nv, nw, h, 0.0) - surv(a, nu, nv, nw, 0.0, h) + surv(a, nu, nv, nw, h, h);
        p += top.max(0.0);
    }
    p.min(1.0)
}

#[cfg(test)]
mod tests {
    use super::*;
    #[test]
    fn identical_sets_collide_always() {
        let p = collision_probability(1.001, 20.0, 65535, 0, 0, 1000);
        assert!((p - 1.0).abs() < 1e-9, "{}", p);
    }
    #[test]
    fn disjoint_equal_sizes_b2() {
        // b = 2, no clipping: P(same bucket) for two iid Exp minima
        let p = collision_probability(2.0, 20.0, 1000, 500, 500, 0);
        assert!(p > 0.2 && p < 0.5, "{}", p);
    }
}
