//! concentration bounds used to decide distributional properties without false alarms.
//! All bounds are non-asymptotic (valid for every sample size) unless stated.

/// L = ln(2/delta) for a per-comparison false alarm probability delta
pub fn big_l(delta: f64) -> f64 {
    (2.0 / delta).ln()
}

/// total false alarm budget of one run
pub const DELTA_RUN: f64 = 1e-9;

/// Bernstein: |mean - mu| <= sqrt(2 var L / T) + 2 b L / (3 T) with probability >= 1 - delta,
/// for T iid variables with |X - mu| <= b and Var X <= var.
pub fn bernstein_tol(var: f64, b: f64, l: f64, t: f64) -> f64 {
    (2.0 * var * l / t).sqrt() + 2.0 * b * l / (3.0 * t)
}

/// Maurer-Pontil empirical Bernstein: |mean - mu| <= sqrt(2 V L' / T) + 7 R L' / (3 (T-1)),
/// V the sample variance, R the range of X, L' = ln(4/delta) for the two-sided statement.
pub fn emp_bernstein_tol(sample_var: f64, range: f64, l: f64, t: f64) -> f64 {
    let l2 = l + std::f64::consts::LN_2; // ln(4/delta)
    (2.0 * sample_var * l2 / t).sqrt() + 7.0 * range * l2 / (3.0 * (t - 1.0))
}

/// Dvoretzky-Kiefer-Wolfowitz (Massart constant): sup|F_n - F| <= sqrt(L / (2 n)), L = ln(2/delta)
pub fn dkw_tol(l: f64, n: f64) -> f64 {
    (l / (2.0 * n)).sqrt()
}

/// sup-distance between the empirical distribution function of `xs` (sorted in place) and `cdf`
pub fn ks_distance(xs: &mut [f64], cdf: impl Fn(f64) -> f64) -> f64 {
    xs.sort_by(|a, b| a.partial_cmp(b).unwrap());
    let n = xs.len() as f64;
    let mut d: f64 = 0.0;
    for (i, x) in xs.iter().enumerate() {
        let f = cdf(*x);
        let lo = i as f64 / n;
        let hi = (i + 1) as f64 / n;
        d = d.max((f - lo).abs()).max((hi - f).abs());
    }
    d
}

/// running mean / variance (Welford), deterministic given the order of pushes
#[derive(Clone, Copy, Debug, Default)]
pub struct Acc {
    pub n: f64,
    pub mean: f64,
    pub m2: f64,
}
impl Acc {
    pub fn push(&mut self, x: f64) {
        self.n += 1.0;
        let d = x - self.mean;
        self.mean += d / self.n;
        self.m2 += d * (x - self.mean);
    }
    pub fn var(&self) -> f64 {
        if self.n > 1.0 {
            self.m2 / (self.n - 1.0)
        } else {
            0.0
        }
    }
    pub fn merge(&mut self, o: &Acc) {
        if o.n == 0.0 {
            return;
        }
        if self.n == 0.0 {
            *self = *o;
            return;
        }
        let n = self.n + o.n;
        let d = o.mean - self.mean;
        self.m2 += o.m2 + d * d * self.n * o.n / n;
        self.mean += d * o.n / n;
        self.n = n;
    }
}

/// outcome of a mean test against an exact target
#[derive(Debug, Clone)]
pub struct MeanTest {
    pub mean: f64,
    pub target: f64,
    pub tol: f64,
    pub ok: bool,
}

/// two-sided test of E X = mu for X in [0,1]; `var_h` is a variance bound valid under the hypothesis
/// (None: only the trivial mu(1-mu)); the sharper of Bernstein and empirical Bernstein is used, each at delta/2.
pub fn mean_test(acc: &Acc, mu: f64, var_h: Option<f64>, l: f64) -> MeanTest {
    let t = acc.n;
    let l_half = l + std::f64::consts::LN_2; // delta/2 each
    let var_generic = (mu * (1.0 - mu)).max(0.0);
    let v = var_h.map_or(var_generic, |v| v.min(var_generic));
    let tol_b = bernstein_tol(v, 1.0, l_half, t);
    let tol_e = emp_bernstein_tol(acc.var(), 1.0, l_half, t);
    let tol = tol_b.min(tol_e);
    MeanTest { mean: acc.mean, target: mu, tol, ok: (acc.mean - mu).abs() <= tol }
}

/// one-sided test of E Y <= bound for Y in [0, range] via empirical Bernstein
pub fn upper_test(acc: &Acc, bound: f64, range: f64, l: f64) -> MeanTest {
    let tol = emp_bernstein_tol(acc.var(), range, l, acc.n);
    MeanTest { mean: acc.mean, target: bound, tol, ok: acc.mean <= bound + tol }
}

/// regularised lower incomplete gamma / normal helpers are not needed: all laws used have closed form CDFs.

/// ln(n!) by direct summation (n small) – used for permutation cell counts
pub fn factorial(n: usize) -> usize {
    (1..=n).product()
}
