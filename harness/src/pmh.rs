//! uniform driver for the four ProbMinHash variants, every entry point and several hashers
use fnv::FnvHasher;
use indexmap::IndexMap;
use probminhash::nohasher::NoHashHasher;
use probminhash::probminhasher::{ProbMinHash2, ProbMinHash3, ProbMinHash3a, ProbMinHash3aSha};
use probminhash::weightedset::WeightedSet;
use serde::{Deserialize, Serialize};
use std::collections::HashMap;
use std::hash::Hasher;
use twox_hash::XxHash64;
use wyhash::WyHash;

/// the per-position register values through the guarded hook; empty in a build without the hooks (the `nohooks` probe crate includes
/// this file to compute sketches with the crate built WITHOUT its verification feature)
macro_rules! regs_of {
    ($s:expr) => {{
        #[cfg(feature = "hooks")]
        let r: Vec<f64> = $s.verif_registers();
        #[cfg(not(feature = "hooks"))]
        let r: Vec<f64> = Vec::new();
        r
    }};
}

pub const PLACEHOLDER: u64 = u64::MAX;

#[derive(Clone, Copy, Debug, PartialEq, Eq, Serialize, Deserialize, Hash)]
pub enum Variant {
    P2,
    P3,
    P3a,
    P3aSha,
}
pub const VARIANTS: [Variant; 4] = [Variant::P2, Variant::P3, Variant::P3a, Variant::P3aSha];

#[derive(Clone, Copy, Debug, PartialEq, Eq, Serialize, Deserialize, Hash)]
pub enum HasherKind {
    Fnv,
    NoHash,
    Wy,
    Xx64,
}

/// entry points; the subset available depends on the variant (see `entries`)
#[derive(Clone, Copy, Debug, PartialEq, Eq, Serialize, Deserialize, Hash)]
pub enum Entry {
    Item,
    Wset,
    IdxMap,
    HashMap,
    /// integer weights through the ToPrimitive path (weights must be integral; otherwise falls back to f64)
    IdxMapInt,
}

pub fn entries(v: Variant) -> &'static [Entry] {
    match v {
        Variant::P2 => &[Entry::Item, Entry::Wset, Entry::HashMap],
        Variant::P3 => &[Entry::Item, Entry::Wset, Entry::IdxMap, Entry::HashMap, Entry::IdxMapInt],
        Variant::P3a => &[Entry::IdxMap, Entry::HashMap, Entry::IdxMapInt],
        Variant::P3aSha => &[Entry::IdxMap, Entry::HashMap, Entry::IdxMapInt],
    }
}

pub fn min_m(v: Variant) -> usize {
    match v {
        Variant::P2 => 1,
        _ => 2,
    }
}

/// iterator + weight lookup for the hash_wset entry point
struct WsetIter<'a> {
    items: &'a [(u64, f64)],
    pos: usize,
    weights: HashMap<u64, f64>,
}
impl<'a> Iterator for WsetIter<'a> {
    type Item = u64;
    fn next(&mut self) -> Option<u64> {
        let r = self.items.get(self.pos).map(|p| p.0);
        self.pos += 1;
        r
    }
}
impl<'a> WeightedSet for WsetIter<'a> {
    type Object = u64;
    fn get_weight(&self, obj: &u64) -> f64 {
        self.weights[obj]
    }
}
fn wset(items: &[(u64, f64)]) -> WsetIter<'_> {
    WsetIter { items, pos: 0, weights: items.iter().cloned().collect() }
}

fn all_integral(items: &[(u64, f64)]) -> bool {
    items.iter().all(|(_, w)| *w >= 1.0 && *w <= 9.0e15 && w.fract() == 0.0)
}

pub struct Out {
    pub sig: Vec<u64>,
    pub regs: Vec<f64>,
}

/// a batch is a list of (item, weight) pairs fed through one entry point call (Item / Wset: in the given order;
/// maps: in the map's iteration order, duplicates inside a batch collapse)
pub type Batch = (Entry, Vec<(u64, f64)>);

fn run_h<H: Hasher + Default>(v: Variant, m: usize, batches: &[Batch]) -> Out {
    match v {
        Variant::P2 => {
            let mut s = ProbMinHash2::<u64, H>::new(m, PLACEHOLDER);
            for (e, items) in batches {
                match e {
                    Entry::Item => {
                        for (d, w) in items {
                            s.hash_item(*d, *w);
                        }
                    }
                    Entry::Wset => s.hash_wset(&mut wset(items)),
                    _ => {
                        let map: HashMap<u64, f64> = items.iter().cloned().collect();
                        s.hash_weigthed_hashmap::<std::collections::hash_map::RandomState>(&map);
                    }
                }
            }
            Out { sig: s.get_signature().clone(), regs: regs_of!(s) }
        }
        Variant::P3 => {
            let mut s = ProbMinHash3::<u64, H>::new(m, PLACEHOLDER);
            for (e, items) in batches {
                match e {
                    Entry::Item => {
                        for (d, w) in items {
                            s.hash_item(*d, w);
                        }
                    }
                    Entry::Wset => s.hash_wset(&mut wset(items)),
                    Entry::IdxMap => {
                        let map: IndexMap<u64, f64> = items.iter().cloned().collect();
                        s.hash_weigthed_idxmap(&map);
                    }
                    Entry::IdxMapInt if all_integral(items) => {
                        let map: IndexMap<u64, u64> = items.iter().map(|(d, w)| (*d, *w as u64)).collect();
                        s.hash_weigthed_idxmap(&map);
                    }
                    Entry::IdxMapInt => {
                        let map: IndexMap<u64, f64> = items.iter().cloned().collect();
                        s.hash_weigthed_idxmap(&map);
                    }
                    Entry::HashMap => {
                        let map: HashMap<u64, f64> = items.iter().cloned().collect();
                        s.hash_weigthed_hashmap(&map);
                    }
                }
            }
            Out { sig: s.get_signature().clone(), regs: regs_of!(s) }
        }
        Variant::P3a => {
            let mut s = ProbMinHash3a::<u64, H>::new(m, PLACEHOLDER);
            for (e, items) in batches {
                match e {
                    Entry::HashMap => {
                        let map: HashMap<u64, f64> = items.iter().cloned().collect();
                        s.hash_weigthed_hashmap(&map);
                    }
                    Entry::IdxMapInt if all_integral(items) => {
                        let map: IndexMap<u64, u32> = items.iter().filter(|(_, w)| *w <= u32::MAX as f64).map(|(d, w)| (*d, *w as u32)).collect();
                        if map.len() == items.len() {
                            s.hash_weigthed_idxmap(&map);
                        } else {
                            let map: IndexMap<u64, u64> = items.iter().map(|(d, w)| (*d, *w as u64)).collect();
                            s.hash_weigthed_idxmap(&map);
                        }
                    }
                    _ => {
                        let map: IndexMap<u64, f64> = items.iter().cloned().collect();
                        s.hash_weigthed_idxmap(&map);
                    }
                }
            }
            Out { sig: s.get_signature().clone(), regs: regs_of!(s) }
        }
        Variant::P3aSha => unreachable!(),
    }
}

fn run_sha(m: usize, batches: &[Batch]) -> Out {
    let mut s = ProbMinHash3aSha::<u64>::new(m, PLACEHOLDER);
    for (e, items) in batches {
        match e {
            Entry::HashMap => {
                let map: HashMap<u64, f64> = items.iter().cloned().collect();
                s.hash_weigthed_hashmap(&map);
            }
            Entry::IdxMapInt if all_integral(items) => {
                let map: IndexMap<u64, u64> = items.iter().map(|(d, w)| (*d, *w as u64)).collect();
                s.hash_weigthed_idxmap(&map);
            }
            _ => {
                let map: IndexMap<u64, f64> = items.iter().cloned().collect();
                s.hash_weigthed_idxmap(&map);
            }
        }
    }
    Out { sig: s.get_signature().clone(), regs: regs_of!(s) }
}

pub fn run_pmh(v: Variant, h: HasherKind, m: usize, batches: &[Batch]) -> Out {
    if v == Variant::P3aSha {
        return run_sha(m, batches);
    }
    match h {
        HasherKind::Fnv => run_h::<FnvHasher>(v, m, batches),
        HasherKind::NoHash => run_h::<NoHashHasher>(v, m, batches),
        HasherKind::Wy => run_h::<WyHash>(v, m, batches),
        HasherKind::Xx64 => run_h::<XxHash64>(v, m, batches),
    }
}

/// the natural single-call presentation of a weighted set for a variant
pub fn canonical(v: Variant, items: &[(u64, f64)]) -> Vec<Batch> {
    let e = match v {
        Variant::P2 | Variant::P3 => Entry::Item,
        _ => Entry::IdxMap,
    };
    vec![(e, items.to_vec())]
}

/// String-keyed Sha variant (keys that are not Copy)
pub fn run_sha_keys<D: Clone + Eq + std::fmt::Debug + std::hash::Hash + probminhash::probminhasher::sig::Sig>(m: usize, placeholder: D, batches: &[(bool, Vec<(D, f64)>)]) -> (Vec<D>, Vec<f64>) {
    let mut s = ProbMinHash3aSha::<D>::new(m, placeholder);
    for (as_hashmap, items) in batches {
        if *as_hashmap {
            let map: HashMap<D, f64> = items.iter().cloned().collect();
            s.hash_weigthed_hashmap(&map);
        } else {
            let map: IndexMap<D, f64> = items.iter().cloned().collect();
            s.hash_weigthed_idxmap(&map);
        }
    }
    (s.get_signature().clone(), regs_of!(s))
}
