//! A serde Deserializer that decodes any `Deserialize` type from raw fuzzer bytes (structure-aware decoding for the
//! libFuzzer targets): integers are little-endian words, sequences are prefixed by a length byte, enum variants are chosen
//! by a byte modulo the number of variants, structs are their fields in order. When the bytes run out, zeros are read
//! (every decode terminates: lengths are bounded by the length byte and nesting is bounded by the types).
use serde::de::{self, DeserializeSeed, EnumAccess, IntoDeserializer, SeqAccess, VariantAccess, Visitor};
use std::fmt;

#[derive(Debug)]
pub struct Error(String);
impl fmt::Display for Error {
    fn fmt(&self, f: &mut fmt::Formatter<'_>) -> fmt::Result {
        write!(f, "{}", self.0)
    }
}
impl std::error::Error for Error {}
impl de::Error for Error {
    fn custom<T: fmt::Display>(msg: T) -> Self {
        Error(msg.to_string())
    }
}

pub struct Bytes<'a> {
    data: &'a [u8],
    pos: usize,
    /// cap on decoded sequence lengths
    pub max_seq: usize,
}

impl<'a> Bytes<'a> {
    pub fn new(data: &'a [u8], max_seq: usize) -> Self {
        Bytes { data, pos: 0, max_seq }
    }
    fn byte(&mut self) -> u8 {
        let b = self.data.get(self.pos).cloned().unwrap_or(0);
        self.pos += 1;
        b
    }
    fn word(&mut self, n: usize) -> u64 {
        let mut v = 0u64;
        for i in 0..n {
            v |= (self.byte() as u64) << (8 * i);
        }
        v
    }
    pub fn remaining(&self) -> usize {
        self.data.len().saturating_sub(self.pos)
    }
    fn seq_len(&mut self) -> usize {
        let l = self.byte() as usize;
        // long sequences only while bytes remain
        let l = if l >= 0xF0 { (l - 0xF0) * 64 + self.byte() as usize } else { l % 48 };
        l.min(self.max_seq).min(self.remaining() + 1)
    }
}

pub fn from_bytes<T: de::DeserializeOwned>(data: &[u8], max_seq: usize) -> Result<T, Error> {
    let mut b = Bytes::new(data, max_seq);
    T::deserialize(&mut b)
}

macro_rules! int {
    ($f:ident, $v:ident, $t:ty, $n:expr) => {
        fn $f<V: Visitor<'de>>(self, visitor: V) -> Result<V::Value, Error> {
            visitor.$v(self.word($n) as $t)
        }
    };
}

impl<'de, 'a, 'b> de::Deserializer<'de> for &'b mut Bytes<'a> {
    type Error = Error;
    fn is_human_readable(&self) -> bool {
        false
    }
    fn deserialize_any<V: Visitor<'de>>(self, _: V) -> Result<V::Value, Error> {
        Err(Error("deserialize_any is not supported by the byte decoder".into()))
    }
    fn deserialize_bool<V: Visitor<'de>>(self, visitor: V) -> Result<V::Value, Error> {
        visitor.visit_bool(self.byte() & 1 == 1)
    }
    int!(deserialize_u8, visit_u8, u8, 1);
    int!(deserialize_u16, visit_u16, u16, 2);
    int!(deserialize_u32, visit_u32, u32, 4);
    int!(deserialize_u64, visit_u64, u64, 8);
    int!(deserialize_i8, visit_i8, i8, 1);
    int!(deserialize_i16, visit_i16, i16, 2);
    int!(deserialize_i32, visit_i32, i32, 4);
    int!(deserialize_i64, visit_i64, i64, 8);
    fn deserialize_f32<V: Visitor<'de>>(self, visitor: V) -> Result<V::Value, Error> {
        visitor.visit_f32(f32::from_bits(self.word(4) as u32))
    }
    fn deserialize_f64<V: Visitor<'de>>(self, visitor: V) -> Result<V::Value, Error> {
        visitor.visit_f64(f64::from_bits(self.word(8)))
    }
    fn deserialize_char<V: Visitor<'de>>(self, visitor: V) -> Result<V::Value, Error> {
        visitor.visit_char(char::from_u32(self.word(2) as u32).unwrap_or('a'))
    }
    fn deserialize_str<V: Visitor<'de>>(self, visitor: V) -> Result<V::Value, Error> {
        self.deserialize_string(visitor)
    }
    fn deserialize_string<V: Visitor<'de>>(self, visitor: V) -> Result<V::Value, Error> {
        let n = self.seq_len().min(64);
        let raw: Vec<u8> = (0..n).map(|_| self.byte()).collect();
        visitor.visit_string(String::from_utf8_lossy(&raw).into_owned())
    }
    fn deserialize_bytes<V: Visitor<'de>>(self, visitor: V) -> Result<V::Value, Error> {
        self.deserialize_byte_buf(visitor)
    }
    fn deserialize_byte_buf<V: Visitor<'de>>(self, visitor: V) -> Result<V::Value, Error> {
        let n = self.seq_len();
        let raw: Vec<u8> = (0..n).map(|_| self.byte()).collect();
        visitor.visit_byte_buf(raw)
    }
    fn deserialize_option<V: Visitor<'de>>(self, visitor: V) -> Result<V::Value, Error> {
        if self.byte() & 1 == 1 {
            visitor.visit_some(self)
        } else {
            visitor.visit_none()
        }
    }
    fn deserialize_unit<V: Visitor<'de>>(self, visitor: V) -> Result<V::Value, Error> {
        visitor.visit_unit()
    }
    fn deserialize_unit_struct<V: Visitor<'de>>(self, _: &'static str, visitor: V) -> Result<V::Value, Error> {
        visitor.visit_unit()
    }
    fn deserialize_newtype_struct<V: Visitor<'de>>(self, _: &'static str, visitor: V) -> Result<V::Value, Error> {
        visitor.visit_newtype_struct(self)
    }
    fn deserialize_seq<V: Visitor<'de>>(self, visitor: V) -> Result<V::Value, Error> {
        let n = self.seq_len();
        visitor.visit_seq(Counted { de: self, left: n })
    }
    fn deserialize_tuple<V: Visitor<'de>>(self, len: usize, visitor: V) -> Result<V::Value, Error> {
        visitor.visit_seq(Counted { de: self, left: len })
    }
    fn deserialize_tuple_struct<V: Visitor<'de>>(self, _: &'static str, len: usize, visitor: V) -> Result<V::Value, Error> {
        visitor.visit_seq(Counted { de: self, left: len })
    }
    fn deserialize_map<V: Visitor<'de>>(self, _: V) -> Result<V::Value, Error> {
        Err(Error("maps are not supported by the byte decoder".into()))
    }
    fn deserialize_struct<V: Visitor<'de>>(self, _: &'static str, fields: &'static [&'static str], visitor: V) -> Result<V::Value, Error> {
        visitor.visit_seq(Counted { de: self, left: fields.len() })
    }
    fn deserialize_enum<V: Visitor<'de>>(self, _: &'static str, variants: &'static [&'static str], visitor: V) -> Result<V::Value, Error> {
        let idx = (self.byte() as usize) % variants.len().max(1);
        visitor.visit_enum(Enum { de: self, idx: idx as u32 })
    }
    fn deserialize_identifier<V: Visitor<'de>>(self, _: V) -> Result<V::Value, Error> {
        Err(Error("identifiers are not supported by the byte decoder".into()))
    }
    fn deserialize_ignored_any<V: Visitor<'de>>(self, _: V) -> Result<V::Value, Error> {
        Err(Error("ignored_any is not supported by the byte decoder".into()))
    }
}

struct Counted<'b, 'a> {
    de: &'b mut Bytes<'a>,
    left: usize,
}
impl<'de, 'b, 'a> SeqAccess<'de> for Counted<'b, 'a> {
    type Error = Error;
    fn next_element_seed<T: DeserializeSeed<'de>>(&mut self, seed: T) -> Result<Option<T::Value>, Error> {
        if self.left == 0 {
            return Ok(None);
        }
        self.left -= 1;
        seed.deserialize(&mut *self.de).map(Some)
    }
    fn size_hint(&self) -> Option<usize> {
        Some(self.left)
    }
}

struct Enum<'b, 'a> {
    de: &'b mut Bytes<'a>,
    idx: u32,
}
impl<'de, 'b, 'a> EnumAccess<'de> for Enum<'b, 'a> {
    type Error = Error;
    type Variant = Self;
    fn variant_seed<V: DeserializeSeed<'de>>(self, seed: V) -> Result<(V::Value, Self), Error> {
        let v = seed.deserialize(self.idx.into_deserializer())?;
        Ok((v, self))
    }
}
impl<'de, 'b, 'a> VariantAccess<'de> for Enum<'b, 'a> {
    type Error = Error;
    fn unit_variant(self) -> Result<(), Error> {
        Ok(())
    }
    fn newtype_variant_seed<T: DeserializeSeed<'de>>(self, seed: T) -> Result<T::Value, Error> {
        seed.deserialize(self.de)
    }
    fn tuple_variant<V: Visitor<'de>>(self, len: usize, visitor: V) -> Result<V::Value, Error> {
        visitor.visit_seq(Counted { de: self.de, left: len })
    }
    fn struct_variant<V: Visitor<'de>>(self, fields: &'static [&'static str], visitor: V) -> Result<V::Value, Error> {
        visitor.visit_seq(Counted { de: self.de, left: fields.len() })
    }
}
