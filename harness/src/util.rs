//! small deterministic helpers: hashing / seed derivation, bit-exact f64 (de)serialisation, panic capture
use serde::{Deserialize, Deserializer, Serialize, Serializer};
use std::cell::RefCell;

#[inline]
pub fn splitmix64(mut z: u64) -> u64 {
    z = z.wrapping_add(0x9E3779B97F4A7C15);
    z = (z ^ (z >> 30)).wrapping_mul(0xBF58476D1CE4E5B9);
    z = (z ^ (z >> 27)).wrapping_mul(0x94D049BB133111EB);
    z ^ (z >> 31)
}

/// mix several words into one seed
pub fn mix(words: &[u64]) -> u64 {
    let mut h = 0x243F6A8885A308D3u64;
    for w in words {
        h = splitmix64(h ^ *w);
    }
    h
}

pub fn hash_str(s: &str) -> u64 {
    let mut h = 0xcbf29ce484222325u64;
    for b in s.as_bytes() {
        h ^= *b as u64;
        h = h.wrapping_mul(0x100000001b3);
    }
    splitmix64(h)
}

/// a tiny deterministic generator for trial randomness (seeded from generated values only)
#[derive(Clone, Debug)]
pub struct SmRng(pub u64);
impl SmRng {
    pub fn new(seed: u64) -> Self {
        SmRng(splitmix64(seed ^ 0x5851F42D4C957F2D))
    }
    #[inline]
    pub fn next_u64(&mut self) -> u64 {
        self.0 = self.0.wrapping_add(0x9E3779B97F4A7C15);
        let mut z = self.0;
        z = (z ^ (z >> 30)).wrapping_mul(0xBF58476D1CE4E5B9);
        z = (z ^ (z >> 27)).wrapping_mul(0x94D049BB133111EB);
        z ^ (z >> 31)
    }
    #[inline]
    pub fn below(&mut self, n: u64) -> u64 {
        // multiply-shift, bias negligible for n << 2^64 (used for harness choices only)
        ((self.next_u64() as u128 * n as u128) >> 64) as u64
    }
    #[inline]
    pub fn unit(&mut self) -> f64 {
        (self.next_u64() >> 11) as f64 * (1.0 / (1u64 << 53) as f64)
    }
}

/// f64 stored as its bit pattern so that replay files are exact
#[derive(Clone, Copy, PartialEq)]
pub struct F(pub f64);
impl std::fmt::Debug for F {
    fn fmt(&self, f: &mut std::fmt::Formatter<'_>) -> std::fmt::Result {
        write!(f, "{:e}", self.0)
    }
}
impl Serialize for F {
    fn serialize<S: Serializer>(&self, s: S) -> Result<S::Ok, S::Error> {
        // "0x<bits>|<approx>" : bits are authoritative, the decimal is for the reader
        s.serialize_str(&format!("0x{:016x}|{:e}", self.0.to_bits(), self.0))
    }
}
impl<'de> Deserialize<'de> for F {
    fn deserialize<D: Deserializer<'de>>(d: D) -> Result<Self, D::Error> {
        if !d.is_human_readable() {
            // byte decoder of the fuzz targets: the raw bit pattern
            return u64::deserialize(d).map(|b| F(f64::from_bits(b)));
        }
        let s = String::deserialize(d)?;
        let hex = s.split('|').next().unwrap_or("");
        let hex = hex.trim_start_matches("0x");
        u64::from_str_radix(hex, 16)
            .map(|b| F(f64::from_bits(b)))
            .map_err(serde::de::Error::custom)
    }
}

thread_local! {
    static LAST_PANIC: RefCell<Option<String>> = const { RefCell::new(None) };
}

/// install a silent panic hook that records the message and location per thread
pub fn install_panic_hook() {
    std::panic::set_hook(Box::new(|info| {
        let msg = if let Some(s) = info.payload().downcast_ref::<&str>() {
            s.to_string()
        } else if let Some(s) = info.payload().downcast_ref::<String>() {
            s.clone()
        } else {
            "<non-string panic>".to_string()
        };
        let loc = info
            .location()
            .map(|l| format!("{}:{}", l.file(), l.line()))
            .unwrap_or_default();
        LAST_PANIC.with(|p| *p.borrow_mut() = Some(format!("{} @ {}", msg, loc)));
    }));
}

/// run f, turning a panic into Err(message @ location)
pub fn catch<T>(f: impl FnOnce() -> T) -> Result<T, String> {
    LAST_PANIC.with(|p| *p.borrow_mut() = None);
    match std::panic::catch_unwind(std::panic::AssertUnwindSafe(f)) {
        Ok(v) => Ok(v),
        Err(_) => Err(LAST_PANIC
            .with(|p| p.borrow_mut().take())
            .unwrap_or_else(|| "panic".to_string())),
    }
}

pub fn next_up(x: f64) -> f64 {
    if x.is_nan() || x == f64::INFINITY {
        return x;
    }
    if x == 0.0 {
        return f64::from_bits(1);
    }
    let b = x.to_bits();
    if x > 0.0 {
        f64::from_bits(b + 1)
    } else {
        f64::from_bits(b - 1)
    }
}
pub fn next_down(x: f64) -> f64 {
    -next_up(-x)
}

/// monotone index map (shrinks towards 0): i in [0, 2^16) -> [0, len)
#[inline]
pub fn idx16(i: u16, len: usize) -> usize {
    ((i as usize) * len) >> 16
}

// ---------------------------------------------------------------------------------------------
// the crate under test prints to stdout (println! in several functions): the process' fd 1 is redirected to /dev/null
// and the harness writes its own lines to a duplicate of the original stdout.
static REAL_STDOUT: std::sync::OnceLock<std::sync::Mutex<std::fs::File>> = std::sync::OnceLock::new();

pub fn capture_stdout() {
    use std::os::fd::FromRawFd;
    unsafe {
        let saved = libc::dup(1);
        if saved < 0 {
            return;
        }
        let path = std::ffi::CString::new("/dev/null").unwrap();
        let null = libc::open(path.as_ptr(), libc::O_WRONLY);
        if null >= 0 {
            libc::dup2(null, 1);
            libc::close(null);
        }
        let _ = REAL_STDOUT.set(std::sync::Mutex::new(std::fs::File::from_raw_fd(saved)));
    }
}

pub fn out_line(s: &str) {
    use std::io::Write;
    match REAL_STDOUT.get() {
        Some(f) => {
            let mut f = f.lock().unwrap();
            let _ = writeln!(f, "{}", s);
            let _ = f.flush();
        }
        None => println!("{}", s),
    }
}

#[macro_export]
macro_rules! outln {
    ($($arg:tt)*) => { $crate::util::out_line(&format!($($arg)*)) };
}

/// for fuzz targets: silence the default panic output once, but keep panics fatal for libFuzzer (it installs its own abort hook
/// before us; we chain to it so that a panic that escapes `catch` still aborts the process)
pub fn install_panic_hook_once() {
    static ONCE: std::sync::Once = std::sync::Once::new();
    ONCE.call_once(|| {
        let prev = std::panic::take_hook();
        std::panic::set_hook(Box::new(move |info| {
            let msg = if let Some(s) = info.payload().downcast_ref::<&str>() {
                s.to_string()
            } else if let Some(s) = info.payload().downcast_ref::<String>() {
                s.clone()
            } else {
                "<non-string panic>".to_string()
            };
            let loc = info.location().map(|l| format!("{}:{}", l.file(), l.line())).unwrap_or_default();
            LAST_PANIC.with(|p| *p.borrow_mut() = Some(format!("{} @ {}", msg, loc)));
            if msg.starts_with("VIOLATION-IN-FUZZ-TARGET") {
                prev(info);
            }
        }));
    });
}
