//! pmh-verif: property-based testing / fuzzing harness for jean-pierreBoth/probminhash.
//!   pmh-verif run <ID> <quick|thorough>
//!   pmh-verif replay <file>
//!   pmh-verif child <mode> <in.json> <out.json>
#![allow(dead_code)]
#[macro_use]
pub mod util;
#[macro_use]
pub mod fw;
pub mod bytedec;
pub mod child;
pub mod fuzzdec;
pub mod dist;
pub mod gen;
pub mod pmh;
pub mod sigprobe;
pub mod sk;
pub mod spec;
pub mod oracle;
pub mod props;
pub mod stat;

use fw::*;

fn usage() -> ! {
    eprintln!("usage: pmh-verif run <ID> <quick|thorough> | replay <file> | child <mode> <in> <out>");
    std::process::exit(2)
}

pub fn cli_main() {
    let args: Vec<String> = std::env::args().collect();
    if args.len() < 2 {
        usage();
    }
    let seed: u64 = std::env::var("VERIF_SEED").ok().and_then(|s| s.trim().parse::<i128>().ok()).map(|v| v as u64).unwrap_or(0);
    match args[1].as_str() {
        "run" => {
            if args.len() < 4 {
                usage();
            }
            util::capture_stdout();
            let tier = match args[3].as_str() {
                "quick" => Tier::Quick,
                "thorough" => Tier::Thorough,
                _ => usage(),
            };
            util::install_panic_hook();
            let mut ctx = Ctx::new(&args[2], tier, seed);
            props::configure(&mut ctx);
            if !props::run(&ctx) {
                eprintln!("unknown property {}", args[2]);
                std::process::exit(2);
            }
            ctx.write_evidence();
            finish(&ctx);
        }
        "replay" => {
            if args.len() < 3 {
                usage();
            }
            util::capture_stdout();
            util::install_panic_hook();
            let (p, sub, case) = match read_case_file(std::path::Path::new(&args[2])) {
                Ok(x) => x,
                Err(e) => {
                    eprintln!("{}", e);
                    std::process::exit(2)
                }
            };
            let mut ctx = Ctx::new(&p, Tier::Quick, seed);
            ctx.replay_mode = true;
            ctx.replay_file = Some(std::fs::canonicalize(&args[2]).map(|p| p.display().to_string()).unwrap_or_else(|_| args[2].clone()));
            props::configure(&mut ctx);
            match props::replay(&ctx, &sub, &case) {
                Ok(()) => {}
                Err(e) => {
                    eprintln!("replay error: {}", e);
                    std::process::exit(2)
                }
            }
            if ctx.n_violations() == 0 {
                outln!("replay of {} ({} / {}): property held", args[2], p, sub);
            }
            finish(&ctx);
        }
        "fuzz-one" => {
            // run one fuzz input through a property's fuzz entry (reproduction of libFuzzer artifacts on the plain build)
            if args.len() < 4 {
                usage();
            }
            util::install_panic_hook();
            let data = std::fs::read(&args[3]).unwrap_or_default();
            match util::catch(|| fuzzdec::fuzz(&args[2], &data)) {
                Ok(()) => {
                    outln!("fuzz input {}: property held", args[3]);
                    std::process::exit(0)
                }
                Err(p) => {
                    outln!("{}", p);
                    std::process::exit(1)
                }
            }
        }
        "child" => {
            if args.len() < 5 {
                usage();
            }
            child::main(&args[2], &args[3], &args[4]);
        }
        _ => usage(),
    }
}

fn finish(ctx: &Ctx) -> ! {
    use std::io::Write;
    let _ = std::io::stdout().flush();
    if ctx.n_violations() > 0 {
        std::process::exit(1);
    }
    if let Some(e) = ctx.infra_error.lock().unwrap().as_ref() {
        eprintln!("inconclusive (infrastructure): {}", e);
        std::process::exit(2);
    }
    let st = ctx.stats.lock().unwrap();
    outln!(
        "OK property={} tier={} seed={} evaluations={} distinct_nontrivial={} wall_s={:.1}",
        ctx.id,
        ctx.tier.name(),
        ctx.seed,
        st.evaluations,
        st.nontrivial.len() as u64 + st.bulk_nontrivial,
        ctx.start.elapsed().as_secs_f64()
    );
    std::process::exit(0)
}
