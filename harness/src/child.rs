//! child-process modes (work that may abort, hang, or must run in a distinct process)
pub fn main(mode: &str, _input: &str, _output: &str) -> ! {
    eprintln!("unknown child mode {}", mode);
    std::process::exit(2)
}
