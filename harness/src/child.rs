//! child-process modes (work that may abort, hang, or must run in a distinct process)
use serde_json::Value;

pub fn main(mode: &str, input: &str, output: &str) -> ! {
    crate::util::install_panic_hook();
    // C12: one of the child processes runs with every log statement of the crate enabled (no logger installed: the records go nowhere,
    // but their arguments are evaluated); a sketch must not depend on the log level
    if std::env::var("PMH_VERIF_LOG").map_or(false, |v| v == "trace") {
        log::set_max_level(log::LevelFilter::Trace);
    }
    let inp: Value = match std::fs::read_to_string(input).ok().and_then(|s| serde_json::from_str(&s).ok()) {
        Some(v) => v,
        None => {
            eprintln!("child: cannot read {}", input);
            std::process::exit(2)
        }
    };
    let out: Value = match mode {
        "c12" => crate::props::c12::child(&inp),
        "c18" => crate::props::c18::child(&inp),
        "c14mle" => crate::props::c14::child(&inp),
        "c20" => crate::props::c20::child(&inp),
        _ => {
            eprintln!("unknown child mode {}", mode);
            std::process::exit(2)
        }
    };
    if std::fs::write(output, serde_json::to_string(&out).unwrap()).is_err() {
        std::process::exit(2);
    }
    std::process::exit(0)
}
