//! C18 probe: computes Sig::get_sig (and a ProbMinHash3aSha run) for a batch of values.
//! This file is shared (via #[path]) with the small AddressSanitizer / Miri probe crate in /verif/asan.
use probminhash::probminhasher::sig::Sig;
use probminhash::probminhasher::ProbMinHash3aSha;
use serde::{Deserialize, Serialize};

#[derive(Clone, Debug, Serialize, Deserialize, PartialEq)]
pub enum SigVal {
    U8(u8),
    U16(u16),
    U32(u32),
    U64(u64),
    I16(i16),
    I32(i32),
    Str(String),
    VecU8(Vec<u8>),
    VecU16(Vec<u16>),
    VecU32(Vec<u32>),
    /// very large vectors described by (length, seed) so that the case stays small; element i = low bits of splitmix(seed + i)
    BigU16(u32, u64),
    BigU32(u32, u64),
}

fn sm(z0: u64) -> u64 {
    let mut z = z0.wrapping_add(0x9E3779B97F4A7C15);
    z = (z ^ (z >> 30)).wrapping_mul(0xBF58476D1CE4E5B9);
    z = (z ^ (z >> 27)).wrapping_mul(0x94D049BB133111EB);
    z ^ (z >> 31)
}

impl SigVal {
    pub fn type_name(&self) -> &'static str {
        match self {
            SigVal::U8(_) => "u8",
            SigVal::U16(_) => "u16",
            SigVal::U32(_) => "u32",
            SigVal::U64(_) => "u64",
            SigVal::I16(_) => "i16",
            SigVal::I32(_) => "i32",
            SigVal::Str(_) => "String",
            SigVal::VecU8(_) => "Vec<u8>",
            SigVal::VecU16(_) => "Vec<u16>",
            SigVal::VecU32(_) => "Vec<u32>",
            SigVal::BigU16(..) => "Vec<u16>",
            SigVal::BigU32(..) => "Vec<u32>",
        }
    }
    /// expand the (length, seed) forms
    pub fn materialize(&self) -> SigVal {
        match self {
            SigVal::BigU16(n, s) => SigVal::VecU16((0..*n as u64).map(|i| sm(s.wrapping_add(i)) as u16).collect()),
            SigVal::BigU32(n, s) => SigVal::VecU32((0..*n as u64).map(|i| sm(s.wrapping_add(i)) as u32).collect()),
            other => other.clone(),
        }
    }
    pub fn is_big(&self) -> bool {
        matches!(self, SigVal::BigU16(..) | SigVal::BigU32(..))
    }
    /// what the crate returns
    pub fn get_sig(&self) -> Vec<u8> {
        match self {
            SigVal::U8(x) => x.get_sig(),
            SigVal::U16(x) => x.get_sig(),
            SigVal::U32(x) => x.get_sig(),
            SigVal::U64(x) => x.get_sig(),
            SigVal::I16(x) => x.get_sig(),
            SigVal::I32(x) => x.get_sig(),
            SigVal::Str(x) => x.get_sig(),
            SigVal::VecU8(x) => x.get_sig(),
            SigVal::VecU16(x) => x.get_sig(),
            SigVal::VecU32(x) => x.get_sig(),
            big => big.materialize().get_sig(),
        }
    }
    /// independent reference: native-endian bytes, concatenated for vectors, UTF-8 for strings
    pub fn reference(&self) -> Vec<u8> {
        match self {
            SigVal::U8(x) => vec![*x],
            SigVal::U16(x) => x.to_ne_bytes().to_vec(),
            SigVal::U32(x) => x.to_ne_bytes().to_vec(),
            SigVal::U64(x) => x.to_ne_bytes().to_vec(),
            SigVal::I16(x) => x.to_ne_bytes().to_vec(),
            SigVal::I32(x) => x.to_ne_bytes().to_vec(),
            SigVal::Str(x) => x.as_bytes().to_vec(),
            SigVal::VecU8(x) => x.clone(),
            SigVal::VecU16(x) => x.iter().flat_map(|e| e.to_ne_bytes()).collect(),
            SigVal::VecU32(x) => x.iter().flat_map(|e| e.to_ne_bytes()).collect(),
            big => big.materialize().reference(),
        }
    }
    /// the same value rebuilt with a different allocation history: spare capacity, and stale elements behind the length
    /// (a longer vector that was truncated); equal values must give equal bytes
    pub fn rebuilt(&self) -> SigVal {
        fn re<T: Clone + Default>(x: &Vec<T>, filler: T) -> Vec<T> {
            let mut v: Vec<T> = Vec::with_capacity(x.len() + 13);
            v.extend(x.iter().cloned());
            for _ in 0..7 {
                v.push(filler.clone());
            }
            v.truncate(x.len());
            v
        }
        match self {
            SigVal::VecU8(x) => SigVal::VecU8(re(x, 0xEE)),
            SigVal::VecU16(x) => SigVal::VecU16(re(x, 0xEEEE)),
            SigVal::VecU32(x) => SigVal::VecU32(re(x, 0xEEEE_EEEE)),
            SigVal::BigU16(..) | SigVal::BigU32(..) => self.materialize().rebuilt(),
            SigVal::Str(x) => {
                let mut s = String::with_capacity(x.len() + 29);
                s.push_str(x);
                s.push_str("stale-tail");
                s.truncate(x.len());
                SigVal::Str(s)
            }
            other => other.clone(),
        }
    }
    pub fn len(&self) -> usize {
        match self {
            SigVal::Str(x) => x.len(),
            SigVal::VecU8(x) => x.len(),
            SigVal::VecU16(x) => x.len(),
            SigVal::VecU32(x) => x.len(),
            SigVal::BigU16(n, _) | SigVal::BigU32(n, _) => *n as usize,
            _ => 1,
        }
    }
}

fn fnv(bytes: &[u8]) -> u64 {
    let mut h = 0xcbf29ce484222325u64;
    for b in bytes {
        h ^= *b as u64;
        h = h.wrapping_mul(0x100000001b3);
    }
    h
}

/// ProbMinHash3aSha over keys of the value's type: the value itself plus variants derived from it; two insertion orders.
/// Returns (signature digests in order 1, in order 2)
fn sha_run<D: Clone + Eq + std::fmt::Debug + std::hash::Hash + Sig>(keys: Vec<D>, placeholder: D) -> (Vec<u64>, Vec<u64>) {
    use indexmap::IndexMap;
    let mut uniq: Vec<D> = vec![];
    for k in keys {
        if !uniq.contains(&k) && k != placeholder {
            uniq.push(k);
        }
    }
    let m = 8;
    let digest = |s: &Vec<D>| s.iter().map(|d| fnv(&d.get_sig())).collect::<Vec<u64>>();
    let mut fwd: IndexMap<D, f64> = IndexMap::new();
    for (i, k) in uniq.iter().enumerate() {
        fwd.insert(k.clone(), 1.0 + i as f64);
    }
    let mut rev: IndexMap<D, f64> = IndexMap::new();
    for (i, k) in uniq.iter().enumerate().rev() {
        rev.insert(k.clone(), 1.0 + i as f64);
    }
    let mut a = ProbMinHash3aSha::<D>::new(m, placeholder.clone());
    a.hash_weigthed_idxmap(&fwd);
    let mut b = ProbMinHash3aSha::<D>::new(m, placeholder);
    b.hash_weigthed_idxmap(&rev);
    (digest(a.get_signature()), digest(b.get_signature()))
}

pub fn sha_probe(v: &SigVal) -> (Vec<u64>, Vec<u64>) {
    match v {
        SigVal::BigU16(..) | SigVal::BigU32(..) => (vec![], vec![]),
        SigVal::U8(x) => sha_run(vec![*x, x.wrapping_add(1), x.wrapping_add(7)], 255u8.wrapping_sub(*x % 2)),
        SigVal::U16(x) => sha_run(vec![*x, x.wrapping_add(1), x.wrapping_mul(3)], u16::MAX),
        SigVal::U32(x) => sha_run(vec![*x, x.wrapping_add(1), x.wrapping_mul(3)], u32::MAX),
        SigVal::U64(x) => sha_run(vec![*x, x.wrapping_add(1), x.wrapping_mul(3)], u64::MAX),
        SigVal::I16(x) => sha_run(vec![*x, x.wrapping_add(1), x.wrapping_neg()], i16::MIN),
        SigVal::I32(x) => sha_run(vec![*x, x.wrapping_add(1), x.wrapping_neg()], i32::MIN),
        SigVal::Str(x) => sha_run(vec![x.clone(), format!("{}a", x), format!("b{}", x)], String::from("\u{1}ph")),
        SigVal::VecU8(x) => sha_run(vec![x.clone(), [x.as_slice(), &[1]].concat(), vec![2]], vec![0xFF, 0xFE, 0xFD]),
        SigVal::VecU16(x) => sha_run(vec![x.clone(), [x.as_slice(), &[1]].concat(), vec![2]], vec![0xFFFF, 0xFFFE]),
        SigVal::VecU32(x) => sha_run(vec![x.clone(), [x.as_slice(), &[1]].concat(), vec![2]], vec![0xFFFF_FFFF, 0xFFFF_FFFE]),
    }
}

#[derive(Clone, Debug, Serialize, Deserialize)]
pub struct ProbeOut {
    /// get_sig() output, called twice (ownership bugs often show on the second call)
    pub sig: Vec<u8>,
    pub sig_again: Vec<u8>,
    /// get_sig() of an equal value with spare capacity and stale elements behind its length
    pub sig_rebuilt: Vec<u8>,
    pub sha_fwd: Vec<u64>,
    pub sha_rev: Vec<u64>,
    /// for very large values the three byte strings are replaced by (length, FNV-1a digest) pairs
    #[serde(default)]
    pub digests: Option<Vec<(u64, u64)>>,
}

pub fn digest(bytes: &[u8]) -> (u64, u64) {
    (bytes.len() as u64, fnv(bytes))
}

pub fn probe(v: &SigVal, with_sha: bool) -> ProbeOut {
    let sig = v.get_sig();
    // churn the allocator between the two calls so that a freed buffer is likely to be reused
    let churn: Vec<Vec<u8>> = (0..4).map(|i| vec![0xA5u8.wrapping_add(i); sig.len().max(1)]).collect();
    let sig_again = v.get_sig();
    std::hint::black_box(&churn);
    let (sha_fwd, sha_rev) = if with_sha { sha_probe(v) } else { (vec![], vec![]) };
    let sig_rebuilt = v.rebuilt().get_sig();
    if v.is_big() {
        let digests = Some(vec![digest(&sig), digest(&sig_again), digest(&sig_rebuilt)]);
        return ProbeOut { sig: vec![], sig_again: vec![], sig_rebuilt: vec![], sha_fwd, sha_rev, digests };
    }
    ProbeOut { sig, sig_again, sig_rebuilt, sha_fwd, sha_rev, digests: None }
}
