//! framework: context, statistics for evidence, proptest driver (sharded over threads), replay files,
//! known findings, evidence writer.
use crate::util::*;
use proptest::strategy::Strategy;
use proptest::test_runner::{Config, RngAlgorithm, TestCaseError, TestError, TestRng, TestRunner};
use serde::de::DeserializeOwned;
use serde::Serialize;
use serde_json::{json, Map, Value};
use std::collections::{BTreeMap, HashSet};
use std::path::PathBuf;
use std::sync::atomic::{AtomicBool, Ordering};
use std::sync::Mutex;
use std::time::Instant;

#[derive(Clone, Copy, PartialEq, Eq, Debug)]
pub enum Tier {
    Quick,
    Thorough,
}
impl Tier {
    pub fn name(&self) -> &'static str {
        match self {
            Tier::Quick => "quick",
            Tier::Thorough => "thorough",
        }
    }
    /// pick by tier
    pub fn pick<T>(&self, q: T, t: T) -> T {
        match self {
            Tier::Quick => q,
            Tier::Thorough => t,
        }
    }
}

pub fn verif_root() -> PathBuf {
    if let Ok(r) = std::env::var("VERIF_ROOT") {
        return PathBuf::from(r);
    }
    PathBuf::from(env!("CARGO_MANIFEST_DIR")).parent().unwrap().to_path_buf()
}

/// what an evaluation of one generated case reports back
#[derive(Default, Debug, Clone)]
pub struct Report {
    pub nontrivial: bool,
    pub classes: Vec<String>,
    /// case was skipped / not asserted for a stated reason
    pub excluded: Option<String>,
    pub trials: u64,
    /// smallest deviation this case could have detected (distributional checks)
    pub resolution: Option<f64>,
}
impl Report {
    pub fn new(nontrivial: bool) -> Self {
        Report { nontrivial, ..Default::default() }
    }
    pub fn class(mut self, c: impl Into<String>) -> Self {
        self.classes.push(c.into());
        self
    }
    pub fn class_if(mut self, cond: bool, c: &str) -> Self {
        if cond {
            self.classes.push(c.to_string());
        }
        self
    }
    pub fn excluded(mut self, why: impl Into<String>) -> Self {
        self.excluded = Some(why.into());
        self
    }
    pub fn trials(mut self, t: u64) -> Self {
        self.trials = t;
        self
    }
    pub fn resolution(mut self, r: f64) -> Self {
        self.resolution = Some(r);
        self
    }
}

#[derive(Debug, Clone)]
pub struct Fail {
    pub reason: String,
    /// root-cause signature key, matched against open known findings
    pub signature: Option<String>,
    /// statistical failures: (index of the failing comparison, first estimate, confirmation estimate, target)
    pub stat: Option<(usize, f64, f64, f64)>,
}
impl Fail {
    pub fn new(reason: impl Into<String>) -> Self {
        Fail { reason: reason.into(), signature: None, stat: None }
    }
    pub fn with_sig(reason: impl Into<String>, sig: &str) -> Self {
        Fail { reason: reason.into(), signature: Some(sig.to_string()), stat: None }
    }
}
pub type Eval = Result<Report, Fail>;

#[macro_export]
macro_rules! ensure {
    ($cond:expr, $($arg:tt)*) => {
        if !($cond) {
            return Err($crate::fw::Fail::new(format!($($arg)*)));
        }
    };
}

#[derive(Default)]
pub struct Stats {
    pub evaluations: u64,
    pub nontrivial: HashSet<u64>,
    pub bulk_nontrivial: u64,
    pub classes: BTreeMap<String, u64>,
    pub excluded: BTreeMap<String, u64>,
    pub samples: Vec<Value>,
    pub trials_total: u64,
    pub worst_resolution: Option<f64>,
    pub best_resolution: Option<f64>,
    pub sub: BTreeMap<String, Value>,
    /// per sub-check: (cases evaluated, distinct non-trivial cases)
    pub per_sub: BTreeMap<String, (u64, u64)>,
    pub known_printed: HashSet<String>,
    pub known_hits: BTreeMap<String, u64>,
    pub extra: Map<String, Value>,
    pub exhaustive: Option<bool>,
}

#[derive(Clone, Debug, serde::Deserialize)]
pub struct KnownFinding {
    pub property: String,
    pub key: String,
    pub status: String,
    #[serde(default)]
    pub commit: Option<String>,
    pub what: String,
    #[serde(default)]
    pub signature: Option<String>,
}

pub struct Ctx {
    pub id: String,
    pub tier: Tier,
    pub seed: u64,
    pub stats: Mutex<Stats>,
    pub start: Instant,
    pub known: Vec<KnownFinding>,
    pub violations: Mutex<Vec<(String, String)>>, // (replay path, reason)
    pub replay_mode: bool,
    /// in replay mode: the file being replayed (printed in the VIOLATION line instead of a new path)
    pub replay_file: Option<String>,
    pub rule: Mutex<String>,
    pub assumptions: Mutex<Vec<String>>,
    pub infra_error: Mutex<Option<String>>,
    /// a single case running longer than this is a hang: exit 2 (inconclusive), or a violation where termination is the claim
    pub hang_limit: std::time::Duration,
    pub hang_is_violation: bool,
}

impl Ctx {
    pub fn new(id: &str, tier: Tier, seed: u64) -> Self {
        let kf_path = verif_root().join("known_findings.json");
        let known: Vec<KnownFinding> = match std::fs::read_to_string(&kf_path) {
            Ok(s) => serde_json::from_str(&s).unwrap_or_else(|e| {
                eprintln!("cannot parse {}: {}", kf_path.display(), e);
                std::process::exit(2)
            }),
            Err(_) => vec![],
        };
        Ctx {
            id: id.to_string(),
            tier,
            seed,
            stats: Mutex::new(Stats::default()),
            start: Instant::now(),
            known,
            violations: Mutex::new(vec![]),
            replay_mode: false,
            replay_file: None,
            rule: Mutex::new(String::new()),
            assumptions: Mutex::new(vec![]),
            infra_error: Mutex::new(None),
            hang_limit: std::time::Duration::from_secs(2700),
            hang_is_violation: false,
        }
    }

    pub fn set_rule(&self, r: &str) {
        *self.rule.lock().unwrap() = r.to_string();
    }
    pub fn assume(&self, a: &str) {
        self.assumptions.lock().unwrap().push(a.to_string());
    }
    pub fn infra(&self, msg: impl Into<String>) {
        let m = msg.into();
        eprintln!("INFRA: {}", m);
        *self.infra_error.lock().unwrap() = Some(m);
    }

    pub fn open_finding(&self, key: &str) -> Option<&KnownFinding> {
        self.known.iter().find(|k| k.property == self.id && k.key == key && k.status == "open")
    }

    /// record the outcome of a case in the evidence statistics
    pub fn record<C: Serialize>(&self, sub: &str, case: &C, rep: &Report, allow_sample: bool) {
        let ser = serde_json::to_string(case).unwrap_or_default();
        let h = hash_str(&format!("{}|{}", sub, ser));
        let mut st = self.stats.lock().unwrap();
        st.evaluations += 1;
        st.per_sub.entry(sub.to_string()).or_insert((0, 0)).0 += 1;
        st.trials_total += rep.trials;
        if let Some(r) = rep.resolution {
            st.worst_resolution = Some(st.worst_resolution.map_or(r, |w| w.max(r)));
            st.best_resolution = Some(st.best_resolution.map_or(r, |w| w.min(r)));
        }
        for c in &rep.classes {
            *st.classes.entry(format!("{}:{}", sub, c)).or_insert(0) += 1;
        }
        if let Some(e) = &rep.excluded {
            *st.excluded.entry(format!("{}:{}", sub, e)).or_insert(0) += 1;
        } else if rep.nontrivial && st.nontrivial.insert(h) {
            st.per_sub.entry(sub.to_string()).or_insert((0, 0)).1 += 1;
        }
        let nsub = st.samples.iter().filter(|s| s["sub"] == sub).count();
        if allow_sample && rep.excluded.is_none() && (nsub < 2 || (nsub < 4 && rep.nontrivial && h % 7 == 0)) {
            let v: Value = serde_json::from_str(&ser).unwrap_or(Value::Null);
            st.samples.push(json!({"sub": sub, "nontrivial": rep.nontrivial, "classes": rep.classes, "case": truncate_value(v, 24)}));
        }
    }

    /// cases counted in bulk (enumerations too large to hash one by one); distinct by construction
    pub fn record_bulk(&self, sub: &str, evaluations: u64, distinct_nontrivial: u64, sample: Value) {
        let mut st = self.stats.lock().unwrap();
        st.evaluations += evaluations;
        st.bulk_nontrivial += distinct_nontrivial;
        let e = st.per_sub.entry(sub.to_string()).or_insert((0, 0));
        e.0 += evaluations;
        e.1 += distinct_nontrivial;
        *st.classes.entry(format!("{}:bulk", sub)).or_insert(0) += evaluations;
        if st.samples.iter().filter(|s| s["sub"] == sub).count() < 3 {
            st.samples.push(json!({"sub": sub, "case": sample}));
        }
    }

    pub fn note(&self, key: &str, v: Value) {
        self.stats.lock().unwrap().extra.insert(key.to_string(), v);
    }
    pub fn add_class(&self, key: &str, n: u64) {
        *self.stats.lock().unwrap().classes.entry(key.to_string()).or_insert(0) += n;
    }
    pub fn add_excluded(&self, key: &str, n: u64) {
        *self.stats.lock().unwrap().excluded.entry(key.to_string()).or_insert(0) += n;
    }
    pub fn add_trials(&self, n: u64) {
        self.stats.lock().unwrap().trials_total += n;
    }

    /// a failure attributed to a listed open known finding: print once, count, continue
    pub fn known_hit(&self, key: &str, what: &str) {
        let mut st = self.stats.lock().unwrap();
        *st.known_hits.entry(key.to_string()).or_insert(0) += 1;
        if st.known_printed.insert(key.to_string()) {
            outln!("KNOWN-FINDING: property={} {} [{}]", self.id, what, key);
        }
    }

    /// report a violation with its replay payload
    pub fn violation<C: Serialize>(&self, sub: &str, case: &C, reason: &str) {
        let payload = json!({"property": self.id, "sub": sub, "reason": reason, "case": case});
        let text = serde_json::to_string_pretty(&payload).unwrap();
        let h = hash_str(&text);
        let dir = verif_root().join("replays");
        let _ = std::fs::create_dir_all(&dir);
        let path = dir.join(format!("{}-{}-{:016x}.json", self.id, sub, h));
        if !self.replay_mode {
            if let Err(e) = std::fs::write(&path, text) {
                eprintln!("cannot write replay {}: {}", path.display(), e);
            }
        }
        let p = match (&self.replay_file, self.replay_mode) {
            (Some(f), true) => f.clone(),
            _ => path.display().to_string(),
        };
        let mut v = self.violations.lock().unwrap();
        if v.is_empty() || self.replay_mode {
            // one VIOLATION line per run is enough (concurrent workers may find the same defect several times)
            outln!("VIOLATION property={} replay={}", self.id, p);
            outln!("  sub-check: {}   reason: {}", sub, reason);
        }
        v.push((p, reason.to_string()));
    }

    /// a case did not finish within hang_limit: the process cannot continue (the stuck thread cannot be killed)
    pub fn on_hang(&self, sub: &str, case: &Value) -> ! {
        use std::io::Write;
        if self.hang_is_violation {
            self.violation(sub, case, &format!("did not terminate within {} s (work that normally takes far less than a second)", self.hang_limit.as_secs()));
            self.write_evidence();
            let _ = std::io::stdout().flush();
            std::process::exit(1);
        }
        eprintln!("INFRA: watchdog: a case of {} {} ran for more than {} s; inconclusive", self.id, sub, self.hang_limit.as_secs());
        let _ = std::io::stdout().flush();
        std::process::exit(2);
    }

    pub fn n_violations(&self) -> usize {
        self.violations.lock().unwrap().len()
    }

    /// evaluate one concrete case strictly (replay tier / regression cases): no proptest involved
    pub fn run_fixed<C: Serialize + Sync>(&self, sub: &str, case: &C, eval: impl Fn(&C) -> Eval + Sync) {
        let done = AtomicBool::new(false);
        let r = std::thread::scope(|sc| {
            let done = &done;
            sc.spawn(move || {
                let t0 = Instant::now();
                while !done.load(Ordering::Relaxed) {
                    std::thread::sleep(std::time::Duration::from_millis(50));
                    if t0.elapsed() > self.hang_limit {
                        self.on_hang(sub, &serde_json::to_value(case).unwrap_or(Value::Null));
                    }
                }
            });
            let r = match catch(|| eval(case)) {
                Ok(r) => r,
                Err(p) => Err(Fail::new(format!("panic: {}", p))),
            };
            done.store(true, Ordering::Relaxed);
            r
        });
        match r {
            Ok(rep) => {
                let rep = rep.class("fixed-regression-case");
                self.record(sub, case, &rep, false)
            }
            Err(f) => {
                if let Some(sig) = &f.signature {
                    if let Some(k) = self.open_finding(sig) {
                        self.known_hit(sig, &k.what.clone());
                        self.add_excluded(&format!("{}:known-finding:{}", sub, sig), 1);
                        return;
                    }
                }
                self.violation(sub, case, &f.reason);
            }
        }
    }

    /// stratified design: evaluate every case of a deterministic list (built from the run seed by the caller) on `threads` threads.
    /// Used where coverage of every stratum of a small parameter range matters more than random draws; no shrinking (the cases
    /// are already minimal descriptions). Returns true when no violation was found.
    pub fn sweep<C: Serialize + Sync>(&self, sub: &str, cases: &[C], threads: usize, eval: impl Fn(&C) -> Eval + Sync) -> bool {
        let t_sub = Instant::now();
        let next = std::sync::atomic::AtomicUsize::new(0);
        let first_fail: Mutex<Option<(usize, String)>> = Mutex::new(None);
        let started: Vec<Mutex<Option<Instant>>> = (0..threads).map(|_| Mutex::new(None)).collect();
        let finished = std::sync::atomic::AtomicUsize::new(0);
        std::thread::scope(|sc| {
            {
                let (started, finished) = (&started, &finished);
                sc.spawn(move || {
                    while finished.load(Ordering::Relaxed) < threads {
                        std::thread::sleep(std::time::Duration::from_millis(200));
                        for s in started.iter() {
                            if s.lock().unwrap().map_or(false, |t| t.elapsed() > self.hang_limit) {
                                self.on_hang(sub, &Value::Null);
                            }
                        }
                    }
                });
            }
            for t in 0..threads {
                let (next, first_fail, eval, slot, finished) = (&next, &first_fail, &eval, &started[t], &finished);
                sc.spawn(move || {
                    loop {
                        let i = next.fetch_add(1, Ordering::Relaxed);
                        if i >= cases.len() || first_fail.lock().unwrap().is_some() {
                            break;
                        }
                        *slot.lock().unwrap() = Some(Instant::now());
                        let r = match catch(|| eval(&cases[i])) {
                            Ok(r) => r,
                            Err(p) => Err(Fail::new(format!("panic: {}", p))),
                        };
                        *slot.lock().unwrap() = None;
                        match r {
                            Ok(rep) => self.record(sub, &cases[i], &rep, i % 16 == 0),
                            Err(f) => {
                                let mut g = first_fail.lock().unwrap();
                                if g.as_ref().map_or(true, |(j, _)| i < *j) {
                                    *g = Some((i, f.reason));
                                }
                            }
                        }
                    }
                    finished.fetch_add(1, Ordering::Relaxed);
                });
            }
        });
        self.note(&format!("wall_s.{}", sub), serde_json::json!((t_sub.elapsed().as_secs_f64() * 10.0).round() / 10.0));
        if let Some((i, reason)) = first_fail.into_inner().unwrap() {
            self.violation(sub, &cases[i], &reason);
            return false;
        }
        true
    }

    /// proptest-driven exploration, sharded over threads. Returns true when no violation was found.
    pub fn drive<S, V>(
        &self,
        sub: &str,
        cases_total: u32,
        shards: u32,
        max_shrink: u32,
        strategy: impl Fn() -> S + Sync,
        eval: impl Fn(&V) -> Eval + Sync,
    ) -> bool
    where
        S: Strategy<Value = V>,
        V: Serialize + std::fmt::Debug + Clone + Send,
    {
        let t_sub = Instant::now();
        let shards = shards.max(1).min(cases_total.max(1));
        let per = (cases_total + shards - 1) / shards;
        let results: Mutex<Vec<(u32, V, String)>> = Mutex::new(vec![]);
        let stop = AtomicBool::new(false);
        let current: Vec<Mutex<Option<(Instant, Value)>>> = (0..shards).map(|_| Mutex::new(None)).collect();
        let finished = std::sync::atomic::AtomicU32::new(0);
        let scope_res = catch(|| std::thread::scope(|sc| {
            {
                let current = &current;
                let finished = &finished;
                sc.spawn(move || {
                    while finished.load(Ordering::Relaxed) < shards {
                        std::thread::sleep(std::time::Duration::from_millis(200));
                        for slot in current.iter() {
                            let hung = { let g = slot.lock().unwrap(); g.as_ref().filter(|(t, _)| t.elapsed() > self.hang_limit).map(|(_, v)| v.clone()) };
                            if let Some(v) = hung {
                                self.on_hang(sub, &v);
                            }
                        }
                    }
                });
            }
            for shard in 0..shards {
                let results = &results;
                let stop = &stop;
                let strategy = &strategy;
                let eval = &eval;
                let slot = &current[shard as usize];
                let finished = &finished;
                sc.spawn(move || {
                    struct Done<'a>(&'a std::sync::atomic::AtomicU32);
                    impl<'a> Drop for Done<'a> {
                        fn drop(&mut self) {
                            self.0.fetch_add(1, Ordering::Relaxed);
                        }
                    }
                    let _done = Done(finished);
                    let seed = mix(&[self.seed, hash_str(&self.id), hash_str(sub), shard as u64]);
                    let mut sb = [0u8; 32];
                    for i in 0..4 {
                        sb[i * 8..i * 8 + 8].copy_from_slice(&splitmix64(seed.wrapping_add(i as u64)).to_le_bytes());
                    }
                    let config = Config {
                        cases: per,
                        failure_persistence: None,
                        max_shrink_iters: max_shrink,
                        max_global_rejects: 65536,
                        max_local_rejects: 65536,
                        ..Config::default()
                    };
                    let mut runner = TestRunner::new_with_rng(config, TestRng::from_seed(RngAlgorithm::ChaCha, &sb));
                    let failed = AtomicBool::new(false);
                    let strat = strategy();
                    let res = runner.run(&strat, |case| {
                        if stop.load(Ordering::Relaxed) && !failed.load(Ordering::Relaxed) {
                            // another shard already found a violation: finish quickly
                            return Ok(());
                        }
                        if self.hang_is_violation {
                            *slot.lock().unwrap() = Some((Instant::now(), serde_json::to_value(&case).unwrap_or(Value::Null)));
                        } else {
                            *slot.lock().unwrap() = Some((Instant::now(), Value::Null));
                        }
                        let r = match catch(|| eval(&case)) {
                            Ok(r) => r,
                            Err(p) => Err(Fail::new(format!("panic: {}", p))),
                        };
                        *slot.lock().unwrap() = None;
                        match r {
                            Ok(rep) => {
                                if !failed.load(Ordering::Relaxed) {
                                    self.record(sub, &case, &rep, shard == 0);
                                }
                                Ok(())
                            }
                            Err(f) => {
                                if let Some(sig) = &f.signature {
                                    if let Some(k) = self.open_finding(sig) {
                                        if !failed.load(Ordering::Relaxed) {
                                            self.known_hit(sig, &k.what.clone());
                                            self.add_excluded(&format!("{}:known-finding:{}", sub, sig), 1);
                                            let mut st = self.stats.lock().unwrap();
                                            st.evaluations += 1;
                                        }
                                        return Ok(());
                                    }
                                }
                                failed.store(true, Ordering::Relaxed);
                                stop.store(true, Ordering::Relaxed);
                                Err(TestCaseError::fail(f.reason))
                            }
                        }
                    });
                    match res {
                        Ok(()) => {}
                        Err(TestError::Fail(reason, value)) => {
                            results.lock().unwrap().push((shard, value, reason.message().to_string()));
                        }
                        Err(TestError::Abort(reason)) => {
                            self.infra(format!("{} {}: proptest aborted: {}", self.id, sub, reason.message()));
                        }
                    }
                });
            }
        }));
        if let Err(p) = scope_res {
            self.infra(format!("{} {}: a generator thread panicked: {}", self.id, sub, p));
        }
        self.note(&format!("wall_s.{}", sub), serde_json::json!((t_sub.elapsed().as_secs_f64() * 10.0).round() / 10.0));
        let mut res = results.into_inner().unwrap();
        res.sort_by_key(|r| r.0);
        if let Some((_, value, reason)) = res.into_iter().next() {
            self.violation(sub, &value, &reason);
            return false;
        }
        true
    }

    /// write /verif/evidence/<ID>.json
    pub fn write_evidence(&self) {
        let st = self.stats.lock().unwrap();
        let mut cov = Map::new();
        cov.insert("evaluations".into(), json!(st.evaluations));
        cov.insert("distinct_nontrivial".into(), json!(st.nontrivial.len() as u64 + st.bulk_nontrivial));
        cov.insert("rule".into(), json!(self.rule.lock().unwrap().clone()));
        cov.insert("samples".into(), Value::Array(st.samples.clone()));
        cov.insert("per_sub_check".into(), json!(st.per_sub.iter().map(|(k, v)| (k.clone(), json!({"evaluations": v.0, "distinct_nontrivial": v.1}))).collect::<Map<String, Value>>()));
        cov.insert("classes".into(), json!(st.classes));
        cov.insert("excluded".into(), json!(st.excluded));
        if st.trials_total > 0 {
            cov.insert("trials_total".into(), json!(st.trials_total));
        }
        if let (Some(w), Some(b)) = (st.worst_resolution, st.best_resolution) {
            cov.insert("resolution".into(), json!({"best": b, "worst": w, "meaning": "half-width of the acceptance band of the mean-type comparisons (absolute)"}));
        }
        if !st.known_hits.is_empty() {
            cov.insert("known_finding_hits".into(), json!(st.known_hits));
        }
        if let Some(e) = st.exhaustive {
            cov.insert("exhaustive".into(), json!(e));
        }
        for (k, v) in st.extra.iter() {
            cov.insert(k.clone(), v.clone());
        }
        let viol = self.violations.lock().unwrap();
        let ev = json!({
            "property_id": self.id,
            "tier": self.tier.name(),
            "seed": self.seed,
            "level": "exploration",
            "coverage": Value::Object(cov),
            "assumptions": self.assumptions.lock().unwrap().clone(),
            "wall_s": self.start.elapsed().as_secs_f64(),
            "violations": viol.len(),
            "violation_replays": viol.iter().map(|v| v.0.clone()).collect::<Vec<_>>(),
        });
        let dir = verif_root().join("evidence");
        let _ = std::fs::create_dir_all(&dir);
        let path = dir.join(format!("{}.json", self.id));
        std::fs::write(&path, serde_json::to_string_pretty(&ev).unwrap()).expect("write evidence");
    }
}

/// shorten long arrays / strings so that samples stay readable
pub fn truncate_value(v: Value, max: usize) -> Value {
    match v {
        Value::Array(a) => {
            let n = a.len();
            let mut out: Vec<Value> = a.into_iter().take(max).map(|x| truncate_value(x, max)).collect();
            if n > max {
                out.push(json!(format!("... ({} elements in total)", n)));
            }
            Value::Array(out)
        }
        Value::Object(o) => Value::Object(o.into_iter().map(|(k, x)| (k, truncate_value(x, max))).collect()),
        Value::String(s) if s.len() > 200 => Value::String(format!("{}... ({} bytes)", &s[..s.char_indices().nth(120).map(|c| c.0).unwrap_or(0)], s.len())),
        x => x,
    }
}

/// read a replay / regression file: returns (property, sub, case)
pub fn read_case_file(path: &std::path::Path) -> Result<(String, String, Value), String> {
    let s = std::fs::read_to_string(path).map_err(|e| format!("{}: {}", path.display(), e))?;
    let v: Value = serde_json::from_str(&s).map_err(|e| format!("{}: {}", path.display(), e))?;
    let p = v["property"].as_str().ok_or("no property")?.to_string();
    let sub = v["sub"].as_str().ok_or("no sub")?.to_string();
    Ok((p, sub, v["case"].clone()))
}

pub fn parse_case<C: DeserializeOwned>(v: &Value) -> Result<C, String> {
    serde_json::from_value(v.clone()).map_err(|e| format!("cannot decode case: {}", e))
}

/// all committed regression cases and stored replays of a property: (path, sub, case)
pub fn fixed_cases(id: &str) -> Vec<(PathBuf, String, Value)> {
    let mut out = vec![];
    for d in ["regress", "replays"] {
        let dir = verif_root().join(d);
        let Ok(rd) = std::fs::read_dir(&dir) else { continue };
        let mut files: Vec<PathBuf> = rd.filter_map(|e| e.ok().map(|e| e.path())).filter(|p| p.extension().map_or(false, |e| e == "json")).collect();
        files.sort();
        for f in files {
            if let Ok((p, sub, case)) = read_case_file(&f) {
                if p == id {
                    out.push((f, sub, case));
                }
            }
        }
    }
    out
}

// -------------------------------------------------------------------------------------------------
// child processes

pub enum ChildOutcome {
    Done(Value),
    /// abnormal termination: (description, tail of stderr)
    Crashed(String, String),
    Timeout,
    Infra(String),
}

static CHILD_SEQ: std::sync::atomic::AtomicU64 = std::sync::atomic::AtomicU64::new(0);

/// re-invoke this binary as `child <mode> <in> <out>`; stdout is discarded, stderr kept for diagnostics
pub fn run_child(mode: &str, input: &Value, timeout: std::time::Duration, env: &[(&str, &str)]) -> ChildOutcome {
    let exe = match std::env::var("PMH_VERIF_CHILD_EXE").ok().map(PathBuf::from).or_else(|| std::env::current_exe().ok()) {
        Some(e) => e,
        None => return ChildOutcome::Infra("cannot locate own executable".into()),
    };
    run_child_exe(&exe, mode, input, timeout, env)
}

pub fn run_child_exe(exe: &std::path::Path, mode: &str, input: &Value, timeout: std::time::Duration, env: &[(&str, &str)]) -> ChildOutcome {
    let dir = verif_root().join("scratch");
    let _ = std::fs::create_dir_all(&dir);
    let n = CHILD_SEQ.fetch_add(1, Ordering::Relaxed);
    let base = dir.join(format!("child-{}-{}", std::process::id(), n));
    let (pin, pout, perr) = (base.with_extension("in.json"), base.with_extension("out.json"), base.with_extension("err.txt"));
    let cleanup = || {
        let _ = std::fs::remove_file(&pin);
        let _ = std::fs::remove_file(&pout);
        let _ = std::fs::remove_file(&perr);
    };
    if std::fs::write(&pin, serde_json::to_string(input).unwrap()).is_err() {
        return ChildOutcome::Infra("cannot write child input".into());
    }
    let errf = match std::fs::File::create(&perr) {
        Ok(f) => f,
        Err(e) => return ChildOutcome::Infra(format!("cannot create {}: {}", perr.display(), e)),
    };
    let mut cmd = std::process::Command::new(exe);
    cmd.arg("child").arg(mode).arg(&pin).arg(&pout).stdin(std::process::Stdio::null()).stdout(std::process::Stdio::null()).stderr(errf);
    for (k, v) in env {
        cmd.env(k, v);
    }
    let mut ch = match cmd.spawn() {
        Ok(c) => c,
        Err(e) => {
            cleanup();
            return ChildOutcome::Infra(format!("cannot spawn {}: {}", exe.display(), e));
        }
    };
    let t0 = Instant::now();
    let status = loop {
        match ch.try_wait() {
            Ok(Some(st)) => break st,
            Ok(None) => {
                if t0.elapsed() > timeout {
                    let _ = ch.kill();
                    let _ = ch.wait();
                    cleanup();
                    return ChildOutcome::Timeout;
                }
                std::thread::sleep(std::time::Duration::from_millis(5));
            }
            Err(e) => {
                cleanup();
                return ChildOutcome::Infra(format!("wait failed: {}", e));
            }
        }
    };
    let err_tail = std::fs::read_to_string(&perr).unwrap_or_default();
    let err_tail: String = err_tail.chars().rev().take(1500).collect::<String>().chars().rev().collect();
    let res = if status.success() {
        match std::fs::read_to_string(&pout).ok().and_then(|s| serde_json::from_str::<Value>(&s).ok()) {
            Some(v) => ChildOutcome::Done(v),
            None => ChildOutcome::Infra("child exited 0 without output".into()),
        }
    } else {
        use std::os::unix::process::ExitStatusExt;
        let what = match (status.code(), status.signal()) {
            (Some(2), _) => {
                cleanup();
                return ChildOutcome::Infra(format!("child reported an infrastructure error: {}", err_tail));
            }
            (Some(c), _) => format!("exit code {}", c),
            (None, Some(s)) => format!("killed by signal {}", s),
            _ => "unknown status".to_string(),
        };
        ChildOutcome::Crashed(what, err_tail)
    };
    cleanup();
    res
}

