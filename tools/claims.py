# claims table, exec'd by gen_manifest.py

claim("C15",
  "model-based stateful property testing (proptest histories vs. a reference vector of minima, checked after every step)",
  "Exploration: tens of thousands (quick) to millions (thorough) of generated Update/Reset histories over 1..300 slots are run against the real tracker (through the guarded wrapper) and a model; every observable (all slot values, the maximum, is_update_possible at and around the maximum) is compared after every step, failures shrink to a minimal history. Right level because the state space (tree of 2m-1 nodes, arbitrary doubles) is unbounded but bugs in the propagation show on short histories with ties, which the value pool forces.",
  "Trusted: the wrapper in src/verif_hooks.rs forwards to the crate-private tracker unchanged; NaN is never offered.",
  "DESIGN.md 5/C15")

claim("C19",
  "exhaustive enumeration (32-bit) + generated-input round-trip search (64-bit: structured values, proptest, bulk random)",
  "32-bit pair: all 2^32 values, both round trips, in both tiers (exhaustive). 64-bit pair: exploration by structured values (edges, single bits, bit pairs, carry boundaries), proptest-generated mixtures with shrinking and 2e8 (quick) / 4e9 (thorough) uniform words; both directions.",
  "The 64-bit domain cannot be closed by this technique; a defect confined to a set of measure < 1e-9 that is not structured would be missed.",
  "DESIGN.md 5/C19")

claim("C02",
  "metamorphic + differential property testing (proptest: insertion plans vs canonical run, 3 vs 3a, power-of-two scaling, union composition through the register hook)",
  "Exploration: 2e5 (quick) / 5e6 (thorough) generated (variant, hasher, m, weighted set, execution plan) cases; each compares the canonical run with a permuted / batched / multi-entry-point / re-inserting plan, ProbMinHash3 with 3a, a 2^k-scaled copy, membership of every position in the set, and exact position-wise minimum composition for a union. Failures shrink to a minimal weighted set and plan. Right level because order dependence and pruning slips are input-dependent and not enumerable; all weight strata down to the overflow threshold are generated.",
  "Register values come from the guarded accessor verif_registers; exact floating-point ties between two items are tolerated; weights all below m(ln m+40)/f64::MAX are a listed known finding (pmh-winv-overflow), one decade above it is not asserted.",
  "DESIGN.md 5/C02")

claim("C04",
  "metamorphic property testing (two generated presentations of one set must give bit-identical sketches) + targeted collision generator",
  "Exploration: 1.6e5 (quick) / 3e6 (thorough) generated (sketcher kind among 12, size, SetSketch parameters, set, two presentations with repetitions / permutation / chunking / slice vs item-wise) cases compared bit for bit over all views; stored hashes are checked against the independently recomputed hasher values; a second generator observes per-item values through the public API, finds items with equal value in one bin and presents them in both orders (this is what exposed the f32 tie defect, now fixed).",
  "SuperMinHash<f32> cases whose final sketch contains an integer-valued register are not asserted (counted); SetSketch event counters are not part of the sketch.",
  "DESIGN.md 5/C04")
