# claims table, exec'd by gen_manifest.py

claim("C15",
  "model-based stateful property testing (proptest histories vs. a reference vector of minima, checked after every step)",
  "Exploration: tens of thousands (quick) to millions (thorough) of generated Update/Reset histories over 1..300 slots are run against the real tracker (through the guarded wrapper) and a model; every observable (all slot values, the maximum, is_update_possible at and around the maximum) is compared after every step, failures shrink to a minimal history. Right level because the state space (tree of 2m-1 nodes, arbitrary doubles) is unbounded but bugs in the propagation show on short histories with ties, which the value pool forces.",
  "Trusted: the wrapper in src/verif_hooks.rs forwards to the crate-private tracker unchanged; NaN is never offered.",
  "DESIGN.md 5/C15")

claim("C19",
  "exhaustive enumeration (32-bit) + generated-input round-trip search (64-bit: structured values, proptest, bulk random)",
  "32-bit pair: all 2^32 values, both round trips, in both tiers (exhaustive). 64-bit pair: exploration by structured values (edges, single bits, bit pairs, carry boundaries), proptest-generated mixtures with shrinking and 2e8 (quick) / 4e9 (thorough) uniform words; both directions.",
  "The 64-bit domain cannot be closed by this technique; a defect confined to a set of measure < 1e-9 that is not structured would be missed.",
  "DESIGN.md 5/C19")

claim("C02",
  "metamorphic + differential property testing (proptest: insertion plans vs canonical run, 3 vs 3a, power-of-two scaling, union composition through the register hook)",
  "Exploration: 2e5 (quick) / 5e6 (thorough) generated (variant, hasher, m, weighted set, execution plan) cases; each compares the canonical run with a permuted / batched / multi-entry-point / re-inserting plan, ProbMinHash3 with 3a, a 2^k-scaled copy, membership of every position in the set, and exact position-wise minimum composition for a union. Failures shrink to a minimal weighted set and plan. Right level because order dependence and pruning slips are input-dependent and not enumerable; all weight strata down to the overflow threshold are generated.",
  "Register values come from the guarded accessor verif_registers; exact floating-point ties between two items are tolerated; weights all below m(ln m+40)/f64::MAX are a listed known finding (pmh-winv-overflow), one decade above it is not asserted.",
  "DESIGN.md 5/C02")

claim("C04",
  "metamorphic property testing (two generated presentations of one set must give bit-identical sketches) + targeted collision generator",
  "Exploration: 1.6e5 (quick) / 1.2e6 (thorough) generated (sketcher kind among 17, size, SetSketch parameters, set, two presentations with repetitions / permutation / chunking / slice vs item-wise) cases compared bit for bit over all views; stored hashes are checked against the independently recomputed hasher values; a second generator observes per-item values through the public API, finds items with equal value in one bin and presents them in both orders (this is what exposed the f32 tie defect, now fixed).",
  "SetSketch event counters (get_low_sketch, get_nb_overflow) are not part of the sketch. Targeted sub-checks: dens-equal-r, tie-hunt (2^18 / 2^20 items sorted by the sketcher's own comparison), distinct-items (structured labels incl. the no-op hasher), long-streams (up to 140 000 calls, sizes up to 110 000).",
  "DESIGN.md 5/C04")

claim("C01",
  "statistical property testing: generated weighted-set pairs x tens of thousands to millions of trials with fresh random item labels, exact J_P oracle, Bernstein / empirical-Bernstein decision with confirmation",
  "Exploration to a stated resolution: 160 (quick) / 3200 (thorough) generated configurations over all four variants, all entry points and weight strata; per configuration 2e3..1.5e6 trials (work budget). Two-sided test of the mean against the exactly computed J_P with the variance bound the property itself asserts, one-sided test of the MSE bound, per-cell tests of the single-set claim w_d/sum(w), exact per-trial checks for dyadic scaling (1) and disjoint supports (0). Per-comparison false alarm 1e-14 and a second independent run before reporting. Achieved resolution is written to the evidence (0.07..1.7 points in quick).",
  "Distributional claims cannot be closed: deviations below the recorded resolution are not detected. Hash randomness is realised as fresh random u64 labels per trial.",
  "DESIGN.md 4, 5/C01")

claim("C03",
  "statistical property testing with exact Jaccard oracle (Bernstein mean / MSE-bound tests) + exact and distributional checks of single-item sketches (permutation-ness, per-cell uniformity, DKW and dyadic tail-interval Bernstein tests on fractional parts, position quarters for m up to 1e5)",
  "Exploration to a stated resolution: 144/2400 generated (type, m, set triple) configurations over six sketch types (f64, f32, NoHash, u64, u32/XxHash32) with 1e3..4e5 trials each; mean vs J two-sided, MSE <= J(1-J)/m one-sided; single-item sketches: integer parts form a permutation in every one of 8e6+ sketches (exact), all m! / m^2 cells uniform, fractional parts uniform and pairwise uncorrelated.",
  "f32: a value equal to j+1 is accepted for integer part j (r + j rounds up). Deviations below the recorded resolution are not detected.",
  "DESIGN.md 4, 5/C03")

claim("C05",
  "model-based stateful property testing (histories of sketch / merge / mismatching merge against a set model, two independent composition oracles) + metamorphic min-composition for SuperMinHash",
  "Exploration: 1e5/1.5e6 generated SetSketch histories (u16 and u32 registers, parameters incl. forced clipping and overflow, pools sized so that the lower bound becomes active) compared after every step with a fresh sketch of the model set and with the position-wise maximum of single-item sketches; parameter-mismatch merges must be refused without any change; commutativity, associativity, idempotence; get_low_sketch <= min register. SuperMinHash: sketch(S) == position-wise min over single-item sketches, 1e5/1.5e6 cases.",
  "Parameter differences below 2^-40 relative are not generated (merge tolerates rounding-level differences by design). A targeted generator (f32-roundup) searches items whose f32 draw r + j rounds up to an integer and checks min-composition around them (this region held defect D11, now fixed).",
  "DESIGN.md 5/C05")

claim("C06",
  "statistical property testing (bias and spread of n_hat/n against the advertised formula, normal approximation with z = 7.5 and confirmation) + stateful monotonicity histories + differential sequential vs rayon-parallel estimator under several pool sizes",
  "Exploration: 96/1000 accuracy configurations (m 16..4096 and 66 000 / 70 000, b in (1,2], n 1..2e4 / 2e6, repetitions) with 600..4e4 trials each; 6e3/1.5e5 histories in which the estimate is checked after every single item and every merge, and the parallel estimator is compared with the sketcher's own estimate under rayon pools of 1,2,3,8,16 threads.",
  "The expectation claim is tested from m = 16 and with a normal approximation (the statistic is unbounded); rayon reduction orders are sampled, agreement is required to 4 m eps which covers every order.",
  "DESIGN.md 4, 5/C06")

claim("C07",
  "statistical property testing against an exact closed-form collision oracle (bucket sum of the register model incl. clipping; generator mode placing the upper register limit inside the register spread) + pure-function property testing of the bounds over (b, p)",
  "Exploration: 4e5/1e7 generated (b, p) pairs with b-1 down to 1e-10 for totality / ordering of the bounds; 64/1200 generated (register type, m, b, a, q, three cardinalities) configurations with 400..2e4 trials: mean fraction of equal registers vs the exact model probability within Bernstein with variance p(1-p)/m (positions are independent), and containment of the true Jaccard index by get_jaccard_bounds(p_exact) to 1e-4 for documented parameters.",
  "Containment is asserted only when a and q follow the documentation (clipping probability < 1e-6), as the property states.",
  "DESIGN.md 4, 5/C07")

claim("C08",
  "statistical property testing stratified on fill ratio (1/64 .. 50), three views per trial, generic-variance Bernstein + empirical Bernstein with confirmation; control-variate test (union sketched per trial; exchangeability of the random items gives a zero-mean low-variance statistic)",
  "Exploration: 160/2400 generated (algorithm, float type, m, fill ratio, Jaccard fraction, shape) configurations, 600..4e5 trials each (sparse cases are cheap and get the most); the mean fraction of equal positions in the float, u64 and u32 views is compared with J. Control-variate sub-check: 400/8000 configurations (m 2..1024 over fill 1/16..3, and m 2049..9000 with sets from 4 items to m/4): screening sample of 300..2e4 trials (every trial exactly consistent with the union bounds |E[coll]-J| by L/T0), then where trials differ a fresh sample of 2e3..2e5 trials decided by empirical Bernstein with confirmation; resolves relative biases of a fraction of a percent in the sparse regime.",
  "After densification positions are strongly correlated, so only the trivial variance bound J(1-J) is assumed; resolution is recorded per run.",
  "DESIGN.md 4, 5/C08")

claim("C09",
  "model-based stateful property testing (two sketchers in lock-step, raw-state snapshots around every finishing step) with a watchdog as non-termination oracle",
  "Exploration: 6e4/1.5e6 generated histories of Sketch / Slice / End / Reinit / Views over both algorithms, f64/f32, m >= 1 and pools from m/8 to 4m; populated bins untouched, filled bins copy a populated (value, hash) pair, idempotent end_sketch, slice == item-wise + end on every state, u32 a function of u64 across positions / algorithms / sizes, equal u64 => equal float, agreement of two sketches. Finishing an empty stream must report failure; a case exceeding 20 s is reported as non-termination (this is how the original hang was found).",
  "Raw state through the guarded accessor verif_raw. The wall-clock watchdog is used as a violation signal for this property only, because termination is the claim.",
  "DESIGN.md 5/C09")

claim("C10",
  "statistical property testing against an exact combinatorial oracle (memoised recursion over the next lowest-ranked (element, occurrence) pair), Bernstein decision with confirmation",
  "Exploration: 192/2400 generated (m, l, hasher, sequence pair derived by rotation / substitution / deletion / insertion / common prefix / reversal / disjoint alphabets) configurations with 1.2e4 / 4e4 trials (fresh labels per trial); mean fraction of equal positions vs the exact order-min-hash probability; 48/480 configurations with l 6..15 (the largest accepted value); long runs of one element (up to 131 072 occurrences).",
  "Beyond 3e6 oracle states a Monte-Carlo evaluation of the definition is used and its error added. Positions are correlated: only generic / empirical variance bounds.",
  "DESIGN.md 4, 5/C10")

claim("C11",
  "metamorphic property testing (sequence vs permutation) with dictionary decoding through the public API and the guarded selection accessor",
  "Exploration: 6e4/1.5e6 generated (m, l, hasher, sequence with repeats, permutation, earlier calls) cases: selected indices valid and ascending, position value == dictionary value of the selected elements, same (element, occurrence) pairs selected under permutation, l = 1 signature invariance, repeat call equality; for short inputs every position must decode to some l-subsequence using the public API only.",
  "Selected indices come from the guarded accessor verif_selected.",
  "DESIGN.md 5/C11")

claim("C12",
  "differential testing over execution contexts: two instances, 16 barrier-started threads, freshly started child processes",
  "Exploration: 6e3/1.2e5 generated computation specs covering every sketcher type and entry point (incl. std HashMap whose iteration order differs per instance) are computed twice in-thread and in 16 concurrent threads; 3e4/6e5 specs through the std-HashMap entry points in eight instances each fed a new map; 400/6000 specs additionally in 3/6 child processes (new ASLR, RandomState, ThreadRng; one with the log level at Trace) and in a probe built against the crate without the verif-hooks feature. All sketch views must be bit-identical.",
  "Thread interleavings are sampled, not enumerated; the sketchers share no mutable state, the search targets hidden per-instance / per-thread / per-process inputs.",
  "DESIGN.md 5/C12")

claim("C13",
  "model-based stateful property testing: prefix history, reinit/reset, suffix, compared step by step with a new instance",
  "Exploration: 1.2e5/2e6 histories over 17 unweighted sketcher kinds (incl. no-op hasher and SetSketch over signed registers) (prefixes with merges, overflowing u16 registers, active lower bounds, finished and unfinished densification), 4e4/8e5 ProbMinHash2 reset cases, 4e4/8e5 ProbOrdMinHash2 self-clearing cases; every observable incl. counters and raw densified state is compared.",
  "Raw densified state through verif_raw.",
  "DESIGN.md 5/C13")

claim("C14",
  "property testing with a by-construction oracle (number of equal positions known from the generator) for all counting estimators; child-process totality testing of the MLE",
  "Exploration: 1.5e5/3e6 generated vector pairs over six element types through every counting estimator (exact value in the estimator's own return type, symmetry, identity, length mismatch refused); 640/12800 generated SetSketch pairs (nested, disjoint, identical, 1 vs 1e5 / 1e6, b in {1.001,1.01,1.2,2}, m 1..2048) through get_mle in child processes: finite value in [0,1], no abort.",
  "Float elements are finite. The MLE runs in child processes because argmin's terminal logger writes to stdout.",
  "DESIGN.md 5/C14")

claim("C16",
  "statistical property testing: DKW goodness of fit and bin-by-bin Bernstein comparison (128 intervals) against the closed-form CDF, a stratified test of the rejection branch by forcing the first generator word, and a stratified sweep of the rate over (0,12]",
  "Exploration: 96/640 generated rates (log-uniform 1e-9..40, ln(m/(m-1)), ln 2 ...) with 4e6/2e7 samples each: range check exact, Kolmogorov distance within the DKW bound; the rejection branch (probability down to 5e-10) is entered deliberately and its conditional law compared with the residual law. Sub-check grid: one rate in every cell of width 1/8 (1/32) of (0,12] with 2e6+6e6 (4e6+1.2e7) samples.",
  "The branch sub-check assumes 'first word decides', verified on the build under test, skipped and reported otherwise.",
  "DESIGN.md 4, 5/C16")

claim("C17",
  "property testing with a scripted generator (exact permutation-ness and history independence) + exact cell-boundary test of the first draw (resolution 2^-40, m up to 1.1e6) + statistical per-cell uniformity test",
  "Exploration: 1.5e5/3e6 generated (m, scripted words incl. the extremes of the unit interval, pre-reset history, blocks) cases compared draw by draw between a new, a reset-new and a used+reset instance; 48/480 uniformity cases with 6e6/4e7 draws: all m! orders (m <= 5) and all m^2 cells; 8e3/1.6e5 cell-boundary cases.",
  "No bit-exact reference shuffle: any correct Fisher-Yates passes. The cell-boundary sub-check applies when the first draw is monotone in the generator word (verified per case, skipped and reported otherwise).",
  "DESIGN.md 5/C17")

claim("C18",
  "differential testing against native-endian reference bytes, run in child processes built normally and with AddressSanitizer (abnormal termination = memory-safety oracle); Miri in the thorough tier",
  "Exploration: 4e3/6e4 generated values over all ten implementing types with lengths 0 .. 1e5 incl. allocator size-class boundaries; get_sig twice with allocator churn, ProbMinHash3aSha over keys of the type in two insertion orders; every batch under glibc and under ASan; 150 values under Miri (thorough).",
  "ASan does not see layout-mismatched deallocation (Miri does, thorough tier only).",
  "DESIGN.md 5/C18")

claim("C20",
  "round-trip property testing + exhaustive crash-point enumeration (every strict prefix of every generated file)",
  "4e4/8e5 generated parameter tuples (b in (1,2], a in [1e-6,1e9], m and q over all of u64): dump, reload, compare with the stated tolerance (also the behaviour of the reloaded parameters); overwrite, incl. re-dumps differing in one ulp or in a single parameter; then every prefix of the file as crash point must give Err, never Ok, never a panic; missing file gives Err, also for directories that do not exist while the working directory of a child process holds a dump. The prefix enumeration per file is exhaustive.",
  "b and a are generated inside their documented ranges; for magnitudes such as 1e-143 serde_json's default parser is 1 ulp off even for 15-digit decimals (see DESIGN.md).",
  "DESIGN.md 5/C20")
