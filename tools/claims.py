# claims table, exec'd by gen_manifest.py

claim("C15",
  "model-based stateful property testing (proptest histories vs. a reference vector of minima, checked after every step)",
  "Exploration: tens of thousands (quick) to millions (thorough) of generated Update/Reset histories over 1..300 slots are run against the real tracker (through the guarded wrapper) and a model; every observable (all slot values, the maximum, is_update_possible at and around the maximum) is compared after every step, failures shrink to a minimal history. Right level because the state space (tree of 2m-1 nodes, arbitrary doubles) is unbounded but bugs in the propagation show on short histories with ties, which the value pool forces.",
  "Trusted: the wrapper in src/verif_hooks.rs forwards to the crate-private tracker unchanged; NaN is never offered.",
  "DESIGN.md 5/C15")

claim("C19",
  "exhaustive enumeration (32-bit) + generated-input round-trip search (64-bit: structured values, proptest, bulk random)",
  "32-bit pair: all 2^32 values, both round trips, in both tiers (exhaustive). 64-bit pair: exploration by structured values (edges, single bits, bit pairs, carry boundaries), proptest-generated mixtures with shrinking and 2e8 (quick) / 4e9 (thorough) uniform words; both directions.",
  "The 64-bit domain cannot be closed by this technique; a defect confined to a set of measure < 1e-9 that is not structured would be missed.",
  "DESIGN.md 5/C19")
