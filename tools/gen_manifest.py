#!/usr/bin/env python3
"""Generates /verif/MANIFEST.json from the table below (one entry per claimed property)."""
import json, os, subprocess, sys

ROOT = os.path.dirname(os.path.dirname(os.path.abspath(__file__)))

def hook_commits():
    try:
        out = subprocess.check_output(["git", "-C", "/repo", "log", "--format=%H %s"], text=True)
        return [l.split()[0] for l in out.splitlines() if " verif hook:" in " " + l.split(" ", 1)[1]]
    except Exception:
        return []

# id -> (technique, level text, level note, design ref)
CHECKS = {}

def claim(pid, technique, text, note, ref):
    CHECKS[pid] = dict(technique=technique, text=text, note=note, ref=ref)

PENDING = {}

exec(open(os.path.join(ROOT, "tools", "claims.py")).read())

props = [json.loads(l) for l in open(os.path.join(ROOT, "properties.jsonl"))]
checks = []
na = []
for p in props:
    pid = p["id"]
    if pid in CHECKS:
        c = CHECKS[pid]
        checks.append({
            "property_id": pid,
            "quick_cmd": f"./check {pid} quick",
            "thorough_cmd": f"./check {pid} thorough",
            "evidence_file": f"/verif/evidence/{pid}.json",
            "replay_cmd_template": "./check replay {path}",
            "engine": "pmh-verif",
            "level_claimed": {"category": "exploration", "text": c["text"], "design_ref": c["ref"]},
            "level_note": c["note"],
            "technique": c["technique"],
        })
    else:
        na.append({"property_id": pid, "reason": PENDING.get(pid, "check not built yet in this session (work in progress; see DESIGN.md section 5 for the planned check)")})

manifest = {
    "version": 1,
    "setup_cmd": "./check build",
    "hooks": {
        "guard": "cargo feature verif-hooks",
        "enable": "the harness crate /verif/harness path-depends on /repo with features = [\"verif-hooks\"]; ./check rebuilds it (and therefore /repo's working tree) before every run; the probe crate /verif/nohooks is built against /repo WITHOUT the feature and C12 compares the sketches of the two builds",
        "baseline_off_cmd": "/verif/tools/baseline_off.sh",
        "source_commits": hook_commits(),
        "add_only": True,
    },
    "engines": [
        {"name": "pmh-verif", "path": "/verif/harness", "serves_properties": sorted(CHECKS.keys()),
         "kind_free_text": "Rust binary: proptest 1.11 TestRunner (fixed ChaCha seed from VERIF_SEED, no persistence, sharded over 16 threads) for generation and shrinking; explicit oracles (reference models, metamorphic and differential relations, exact closed forms with non-asymptotic concentration bounds); replay files bypass proptest"},
    ],
    "checks": checks,
    "notes": "All checks rebuild /repo's working tree through the harness path dependency. exit 0 = held, 1 = VIOLATION line printed, 2 = infrastructure/inconclusive. Known findings: /verif/known_findings.json (2 open: C02 pmh-winv-overflow, C01 pmh3-mse-tiny-m; each prints one KNOWN-FINDING line and the check exits 0).",
    "not_applicable": na,
}
FUZZ_SERVES = ["C02", "C04", "C05", "C09", "C11", "C12", "C13", "C14", "C15", "C17", "C18", "C19", "C20"]
manifest["engines"].append({"name": "cargo-fuzz", "path": "/verif/fuzz", "serves_properties": FUZZ_SERVES,
                            "kind_free_text": "libFuzzer + AddressSanitizer targets (cargo +nightly fuzz); bytes are decoded structurally into the property's case type (harness/src/bytedec.rs), normalised into the input domain (fuzzdec.rs) and judged by the same oracle as the proptest driver; second engine of the thorough tier (tools/fuzz_tier.sh), fixed -runs and -seed"})
manifest["engines"].append({"name": "asan-sigprobe", "path": "/verif/asan", "serves_properties": ["C18"],
                            "kind_free_text": "small probe binary built with -Zsanitizer=address (and run under Miri in the thorough tier); child process of the C18 check"})
manifest["engines"].append({"name": "nohooks-probe", "path": "/verif/nohooks", "serves_properties": ["C12"],
                            "kind_free_text": "small probe binary: the C12 computation specs compiled against /repo without the verif-hooks feature; child process of the C12 cross-process sub-check (sketches must not depend on the feature)"})
json.dump(manifest, open(os.path.join(ROOT, "MANIFEST.json"), "w"), indent=1)
print("claimed:", sorted(CHECKS.keys()), "not claimed:", [n["property_id"] for n in na])
