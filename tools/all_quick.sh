#!/bin/bash
# runs every quick check for each seed given; prints one line per (seed, property); used to confirm silence on the unchanged tree
cd "$(dirname "${BASH_SOURCE[0]}")/.." || exit 2
for seed in "$@"; do
  for i in 01 02 03 04 05 06 07 08 09 10 11 12 13 14 15 16 17 18 19 20; do
    s=$(date +%s.%N)
    out=$(VERIF_SEED=$seed ./check C$i quick 2>/dev/null | grep -E "^(VIOLATION|OK|KNOWN|INFRA)" | head -2 | tr '\n' ' ' | cut -c1-200); rc=$?
    e=$(date +%s.%N)
    printf "seed=%s C%s %.0fs %s\n" "$seed" "$i" "$(echo "$e - $s" | bc)" "$out"
  done
done
