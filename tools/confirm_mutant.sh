#!/bin/bash
# usage: tools/confirm_mutant.sh <worktree> <i> : independent confirmation of a candidate mutation produced in a scratch worktree:
#   demo passes on the clean checkout, fails with the mutation, the crate's stable unit tests pass with the mutation.
# prints one summary line; exit 0 if all three hold.
WT="$1"; I="$2"
export CARGO_NET_OFFLINE=true CARGO_TARGET_DIR="$WT/target"
cd "$WT" || exit 2
git checkout -q -- src Cargo.toml 2>/dev/null
mkdir -p tests; cp "_out/demo$I.rs" "tests/demo$I.rs" || { echo "$WT mut$I: no demo"; exit 2; }
cargo test --offline --release ${DEMO_FEATURES:-} --test "demo$I" >/tmp/cm.$$.clean 2>&1; C=$?
git apply "_out/mut$I.diff" || { echo "$WT mut$I: diff does not apply"; exit 2; }
cargo test --offline --release ${DEMO_FEATURES:-} --test "demo$I" >/tmp/cm.$$.mut 2>&1; M=$?
COMPILE_ERR=$(grep -c "^error\[E\|could not compile" /tmp/cm.$$.mut)
cargo test --offline --release --lib -- --skip test_revoptdens_manybins_fnv_f64 --skip test_ordminhash2_p1 --skip test_ordminhash2_p2 --skip test_ordminhash2_p3 >/tmp/cm.$$.lib 2>&1; L=$?
LIBSUM=$(grep "^test result" /tmp/cm.$$.lib | tail -1)
git checkout -q -- src Cargo.toml
OK=1
[ $C -eq 0 ] && [ $M -ne 0 ] && [ "$COMPILE_ERR" = "0" ] && [ $L -eq 0 ] && OK=0
echo "$WT mut$I: demo_clean_rc=$C demo_mutated_rc=$M compile_errors=$COMPILE_ERR lib_rc=$L [$LIBSUM] => $([ $OK -eq 0 ] && echo CONFIRMED || echo REJECTED)"
rm -f /tmp/cm.$$.*
exit $OK
