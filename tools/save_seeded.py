#!/usr/bin/env python3
"""usage: save_seeded.py <Cxx> <i> <detected-by line> : copies a confirmed candidate from /tmp/wt/<Cxx>/_out into /verif/seeded/<Cxx>-<i>/"""
import sys, os, shutil, json, re
pid, i, detected = sys.argv[1], sys.argv[2], sys.argv[3]
src = f"/tmp/wt/{pid}/_out"
dst = f"/verif/seeded/{pid}-{i}"
os.makedirs(dst, exist_ok=True)
shutil.copy(f"{src}/mut{i}.diff", f"{dst}/patch.diff")
shutil.copy(f"{src}/demo{i}.rs", f"{dst}/demo.rs")
notes = open(f"{src}/notes.md").read() if os.path.exists(f"{src}/notes.md") else ""
confirm = ""
if os.path.exists(f"{src}/confirm.txt"):
    for l in open(f"{src}/confirm.txt"):
        if f"mut{i}:" in l: confirm = l.strip()
files = sorted(set(re.findall(r"^\+\+\+ b/(\S+)", open(f"{dst}/patch.diff").read(), re.M)))
meta = {
 "property": pid,
 "breaks": f"property {pid} (see notes)",
 "files_changed": files,
 "origin": "independent sub-agent given only the property record and a scratch worktree of /repo (nothing from /verif)",
 "confirmed_by_me": confirm,
 "what_i_ran": [
   f"tools/confirm_mutant.sh /tmp/wt/{pid} {i}   (demo passes on the clean checkout, fails with the patch, the 34 stable unit tests pass with the patch)",
   f"tools/try_seeded.sh seeded/{pid}-{i}/patch.diff quick {pid}   (git -C /repo apply; ./check {pid} quick; git -C /repo checkout -- .)"],
 "detected_by": detected,
 "notes_from_author": notes,
}
json.dump(meta, open(f"{dst}/meta.json", "w"), indent=1)
print("saved", dst)
