#!/bin/bash
# refreshes every evidence file from a quick run at seed 0 on the unchanged /repo, validates evidence and manifest against their schemas
cd "$(dirname "${BASH_SOURCE[0]}")/.." || exit 2
rm -f replays/*.json
[ -n "$(git -C /repo status --porcelain --untracked-files=no)" ] && { echo "/repo has local modifications: refusing"; exit 2; }
for i in 01 02 03 04 05 06 07 08 09 10 11 12 13 14 15 16 17 18 19 20; do
  rm -f evidence/C$i.json
  VERIF_SEED=0 ./check C$i quick 2>/dev/null | grep -E "^(VIOLATION|OK|KNOWN|INFRA)" | cut -c1-160
done
python3 tools/gen_manifest.py
python3-vt - <<'PY'
import json, jsonschema, glob
ms = json.load(open('/root/.vp/MANIFEST.schema.json')); jsonschema.validate(json.load(open('/verif/MANIFEST.json')), ms)
es = json.load(open('/root/.vp/EVIDENCE.schema.json'))
n = 0
for f in sorted(glob.glob('/verif/evidence/C*.json')):
    jsonschema.validate(json.load(open(f)), es); n += 1
print("manifest ok,", n, "evidence files ok")
PY
