#!/bin/bash
# re-runs every kept seeded change against the checks that are recorded as detecting it (quick tier), in the scratch harness
# (tools/exp_try.sh: /repo is not touched). One line per change: CAUGHT / NOT-CAUGHT and by which check.
cd /verif || exit 2
for d in seeded/*/; do
  key=$(basename "$d")
  if [ -n "${SKIP_FILE:-}" ] && grep -q "^$key " "$SKIP_FILE"; then continue; fi
  ids=$(python3 - "$d/meta.json" <<'PY'
import json,sys,re
m=json.load(open(sys.argv[1]))
by=m.get('detected_by','')
ids=re.findall(r'C\d\d', by)
if not ids: ids=[m['property']]
seen=[]
for i in ids:
    if i not in seen: seen.append(i)
print(' '.join(seen))
PY
)
  res=$(tools/exp_try.sh "/verif/${d}patch.diff" quick $ids 2>&1)
  if echo "$res" | grep -q VIOLATION; then
    who=$(echo "$res" | grep VIOLATION | sed -E 's/.*\[(C[0-9]+) quick exp\].*/\1/' | tr '\n' ' ')
    echo "$key CAUGHT by $who (expected: $ids)"
  else
    echo "$key NOT-CAUGHT (ran: $ids) $(echo "$res" | grep -E 'patch does not|build failed' | head -1)"
  fi
done
