#!/bin/bash
# usage: tools/exp_try.sh <patch.diff|none> <tier> <ID>...
# Like try_seeded.sh but WITHOUT touching /repo: uses a scratch worktree $EXP/repo and a scratch copy of the harness
# ($EXP/harness, path-depending on the scratch worktree). For experiments while long runs use /repo. Not used by any registered check.
PATCH="$1"; TIER="$2"; shift 2
set -u
EXP="${EXP:-/tmp/exp}"; HSRC="${HARNESS_SRC:-/verif/harness}"
mkdir -p $EXP/root
if [ ! -d $EXP/repo ]; then git -C /repo worktree add -q --detach $EXP/repo HEAD && cp /repo/Cargo.lock $EXP/repo/; fi
git -C $EXP/repo checkout -q -- . ; git -C $EXP/repo checkout -q --detach "$(git -C /repo rev-parse HEAD)"
mkdir -p $EXP/harness
rsync -a --delete --exclude target "$HSRC/" $EXP/harness/
sed -i "s#path = \"/repo\"#path = \"$EXP/repo\"#" $EXP/harness/Cargo.toml
cp /verif/known_findings.json $EXP/root/; rm -rf $EXP/root/regress $EXP/root/replays; cp -r /verif/regress $EXP/root/
if [ "$PATCH" != "none" ]; then git -C $EXP/repo apply "$PATCH" || { echo "patch does not apply"; exit 2; }; fi
(cd $EXP/harness && CARGO_NET_OFFLINE=true cargo build --release --offline >$EXP/build.log 2>&1) || { echo "build failed"; tail -5 $EXP/build.log; git -C $EXP/repo checkout -q -- .; exit 2; }
case " $* " in *" C18 "*)
  # C18 needs the AddressSanitizer probe, built against the scratch worktree as well
  mkdir -p $EXP/root/asan; rsync -a --delete --exclude target --exclude target-miri /verif/asan/ $EXP/root/asan/
  sed -i "s#path = \"/repo\"#path = \"$EXP/repo\"#" $EXP/root/asan/Cargo.toml
  ln -sfn $EXP/harness $EXP/root/harness
  (cd $EXP/root/asan && RUSTFLAGS="-Zsanitizer=address" CARGO_NET_OFFLINE=true cargo +nightly build --release --offline --target x86_64-unknown-linux-gnu >$EXP/build_asan.log 2>&1) || { echo "asan build failed"; tail -3 $EXP/build_asan.log; }
  ;; esac
case " $* " in *" C12 "*)
  # C12 needs the hooks-off probe, built against the scratch worktree as well
  mkdir -p $EXP/root/nohooks; rsync -a --delete --exclude target /verif/nohooks/ $EXP/root/nohooks/
  sed -i "s#path = \"/repo\"#path = \"$EXP/repo\"#" $EXP/root/nohooks/Cargo.toml
  ln -sfn $EXP/harness $EXP/root/harness
  (cd $EXP/root/nohooks && CARGO_NET_OFFLINE=true cargo build --release --offline >$EXP/build_nohooks.log 2>&1) || { echo "nohooks build failed"; tail -3 $EXP/build_nohooks.log; }
  ;; esac
for id in "$@"; do
  out=$(cd $EXP/root && VERIF_ROOT=$EXP/root RUST_LOG=off timeout 3000 $EXP/harness/target/release/pmh-verif run "$id" "$TIER" 2>/dev/null | grep -E "^(VIOLATION|OK)|reason" | head -2 | tr '\n' ' ' | cut -c1-330)
  echo "  [$id $TIER exp] $out"
done
git -C $EXP/repo checkout -q -- .
