#!/bin/bash
# usage: tools/exp_try.sh <patch.diff|none> <tier> <ID>...
# Like try_seeded.sh but WITHOUT touching /repo: uses a scratch worktree /tmp/exp/repo and a scratch copy of the harness
# (/tmp/exp/harness, path-depending on the scratch worktree). For experiments while long runs use /repo. Not used by any registered check.
PATCH="$1"; TIER="$2"; shift 2
set -u
mkdir -p /tmp/exp/root
if [ ! -d /tmp/exp/repo ]; then git -C /repo worktree add -q --detach /tmp/exp/repo HEAD && cp /repo/Cargo.lock /tmp/exp/repo/; fi
git -C /tmp/exp/repo checkout -q -- . ; git -C /tmp/exp/repo checkout -q --detach "$(git -C /repo rev-parse HEAD)"
mkdir -p /tmp/exp/harness
rsync -a --delete --exclude target /verif/harness/ /tmp/exp/harness/
sed -i 's#path = "/repo"#path = "/tmp/exp/repo"#' /tmp/exp/harness/Cargo.toml
cp /verif/known_findings.json /tmp/exp/root/; rm -rf /tmp/exp/root/regress /tmp/exp/root/replays; cp -r /verif/regress /tmp/exp/root/
if [ "$PATCH" != "none" ]; then git -C /tmp/exp/repo apply "$PATCH" || { echo "patch does not apply"; exit 2; }; fi
(cd /tmp/exp/harness && CARGO_NET_OFFLINE=true cargo build --release --offline >/tmp/exp/build.log 2>&1) || { echo "build failed"; tail -5 /tmp/exp/build.log; git -C /tmp/exp/repo checkout -q -- .; exit 2; }
case " $* " in *" C18 "*)
  # C18 needs the AddressSanitizer probe, built against the scratch worktree as well
  mkdir -p /tmp/exp/root/asan; rsync -a --delete --exclude target --exclude target-miri /verif/asan/ /tmp/exp/root/asan/
  sed -i 's#path = "/repo"#path = "/tmp/exp/repo"#' /tmp/exp/root/asan/Cargo.toml
  ln -sfn /tmp/exp/harness /tmp/exp/root/harness
  (cd /tmp/exp/root/asan && RUSTFLAGS="-Zsanitizer=address" CARGO_NET_OFFLINE=true cargo +nightly build --release --offline --target x86_64-unknown-linux-gnu >/tmp/exp/build_asan.log 2>&1) || { echo "asan build failed"; tail -3 /tmp/exp/build_asan.log; }
  ;; esac
for id in "$@"; do
  out=$(cd /tmp/exp/root && VERIF_ROOT=/tmp/exp/root RUST_LOG=off timeout 3000 /tmp/exp/harness/target/release/pmh-verif run "$id" "$TIER" 2>/dev/null | grep -E "^(VIOLATION|OK)|reason" | head -2 | tr '\n' ' ' | cut -c1-330)
  echo "  [$id $TIER exp] $out"
done
git -C /tmp/exp/repo checkout -q -- .
