#!/bin/bash
# usage: tools/mutant.sh <file-under-/repo> '<python expr: s.replace(...)>' <check ids...>
# applies a one-off textual mutation to /repo, runs the given checks (quick), reverts. For sensitivity experiments only.
set -u
FILE="$1"; EXPR="$2"; shift 2
cd /repo || exit 2
if [ -n "$(git status --porcelain --untracked-files=no)" ]; then echo "/repo not clean"; exit 2; fi
python3 - "$FILE" "$EXPR" <<'PY'
import sys
p, expr = sys.argv[1], sys.argv[2]
s = open(p).read()
t = eval(expr, {"s": s})
if t == s:
    print("MUTATION DID NOT APPLY"); sys.exit(3)
open(p, "w").write(t)
PY
rc=$?
if [ $rc -ne 0 ]; then git checkout -- . ; exit $rc; fi
git --no-pager diff --stat | tail -1
for id in "$@"; do
  out=$(cd /verif && ./check "$id" quick 2>/dev/null | grep -E "^(VIOLATION|OK|KNOWN)|reason" | head -3 | cut -c1-400)
  echo "[$id] $out"
done
git checkout -- .
rm -rf /verif/replays
(cd /verif && git checkout -- evidence 2>/dev/null)
