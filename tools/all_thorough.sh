#!/bin/bash
# runs the thorough tier of every property once (validation of the thorough commands; long)
cd "$(dirname "${BASH_SOURCE[0]}")/.." || exit 2
for i in "$@"; do
  s=$(date +%s)
  out=$(./check $i thorough 2>&1 | grep -E "^(VIOLATION|OK|KNOWN|INFRA|inconclusive|BUILD)|reason" | head -4 | tr '\n' ' ' | cut -c1-400); 
  e=$(date +%s)
  echo "$i $((e - s))s $out"
done
