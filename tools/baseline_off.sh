#!/bin/bash
# runs the repository's own test suite with the verification guard (cargo feature verif-hooks) OFF and
# checks that the 34 tests of the stable baseline pass. The 4 tests that always exceed the runner's
# 300 s kill limit in the baseline (test_revoptdens_manybins_fnv_f64, test_ordminhash2_p1..p3) are expected to fail/time out.
set -u
export CARGO_NET_OFFLINE=true
HERE="$(cd "$(dirname "${BASH_SOURCE[0]}")" && pwd)"
cd /repo || exit 2
OUT="$(mktemp)"
cargo nextest run --workspace --no-fail-fast --tool-config-file "pb:$HERE/../support/nextest.toml" --profile pb --test-threads 8 --offline >"$OUT" 2>&1
JUNIT=/repo/target/nextest/pb/junit.xml
python3 - "$JUNIT" /root/.vp/BASELINE.json <<'PY'
import sys, json, xml.etree.ElementTree as ET
junit, base = sys.argv[1], sys.argv[2]
try:
    stable = set(json.load(open(base))["stable_pass"])
except Exception:
    stable = None
passed=set(); failed=set()
for tc in ET.parse(junit).getroot().iter('testcase'):
    name = tc.get('classname','') + '::' + tc.get('name','')
    name = name.replace('probminhash::probminhash::','probminhash::') if name.startswith('probminhash::probminhash::') else name
    if any(c.tag in ('failure','error') for c in tc): failed.add(name)
    else: passed.add(name)
print("passed", len(passed), "failed", len(failed))
for f in sorted(failed): print("  FAILED/TIMEOUT:", f)
if stable is not None:
    norm=lambda s: s.split('::',1)[1] if '::' in s else s
    p={norm(x) for x in passed}
    missing=[s for s in stable if norm(s) not in p]
    print("stable baseline tests not passing:", missing)
    sys.exit(1 if missing else 0)
sys.exit(0 if len(passed)>=34 else 1)
PY
RC=$?
rm -f "$OUT"
exit $RC
