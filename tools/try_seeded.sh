#!/bin/bash
# usage: tools/try_seeded.sh <patch.diff> <tier> <ID>... : applies a seeded change to /repo, runs the checks, reverts. Prints one line per check.
PATCH="$1"; TIER="$2"; shift 2
cd /repo || exit 2
if [ -n "$(git status --porcelain --untracked-files=no)" ]; then echo "/repo not clean"; exit 2; fi
git apply "$PATCH" || { echo "patch does not apply"; exit 2; }
# evidence written while a seeded change is applied must never be committed: keep the current files aside
EVBAK="$(mktemp -d)"; cp -a /verif/evidence/. "$EVBAK"/ 2>/dev/null
for id in "$@"; do
  out=$(cd /verif && timeout 3000 ./check "$id" "$TIER" 2>/dev/null | grep -E "^(VIOLATION|OK)|reason" | head -2 | tr '\n' ' ' | cut -c1-330)
  echo "  [$id $TIER] $out"
done
git checkout -q -- .
rm -rf /verif/replays
cp -a "$EVBAK"/. /verif/evidence/ 2>/dev/null; rm -rf "$EVBAK"
