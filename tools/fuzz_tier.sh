#!/bin/bash
# thorough tier, second engine: coverage-guided fuzzing (libFuzzer + AddressSanitizer) of a property's oracle.
#   tools/fuzz_tier.sh <ID> <runs>
# exit 0: no violation; 1: VIOLATION printed; 2: infrastructure problem. Appends a "fuzz" object to evidence/<ID>.json.
set -u
ID="$1"; RUNS="$2"
ROOT="$(cd "$(dirname "${BASH_SOURCE[0]}")/.." && pwd)"
T="fz_$(echo "$ID" | tr 'A-Z' 'a-z')"
[ -f "$ROOT/fuzz/fuzz_targets/$T.rs" ] || exit 0
export CARGO_NET_OFFLINE=true VERIF_ROOT="$ROOT" RUST_LOG=off
LOG="$(mktemp "$ROOT/fuzz/.run.XXXXXX.tmp")"
if ! (cd "$ROOT/fuzz" && cargo +nightly fuzz build --fuzz-dir "$ROOT/fuzz" "$T" >"$LOG" 2>&1); then
  echo "BUILD FAILED (fuzz target $T):" >&2; tail -n 30 "$LOG" >&2; rm -f "$LOG"; exit 2
fi
BIN="$ROOT/fuzz/target/x86_64-unknown-linux-gnu/release/$T"
CORPUS="$ROOT/fuzz/corpus/$T.$$"; ART="$ROOT/fuzz/artifacts/$T/"
mkdir -p "$CORPUS" "$ART"
[ -d "$ROOT/corpus/$T" ] && cp "$ROOT/corpus/$T"/* "$CORPUS"/ 2>/dev/null
SEED="${VERIF_SEED:-0}"; SEED=$(( (SEED % 2000000000) + 1 ))
START_MARK="$(mktemp "$ROOT/fuzz/.mark.XXXXXX.tmp")"
JOBS=8
# 8 independent workers (libFuzzer -fork is avoided: it re-seeds non-deterministically); each gets RUNS/8 executions
pids=()
for j in $(seq 1 $JOBS); do
  mkdir -p "$CORPUS/w$j"; cp "$CORPUS"/* "$CORPUS/w$j"/ 2>/dev/null
  ( "$BIN" -runs=$((RUNS / JOBS)) -seed=$((SEED + j)) -timeout=120 -rss_limit_mb=4096 -len_control=0 -max_len=4096 \
      -artifact_prefix="$ART" -print_final_stats=1 "$CORPUS/w$j" >"$LOG.$j" 2>&1; echo "exit=$?" >>"$LOG.$j" ) &
  pids+=($!)
done
wait "${pids[@]}"
RC=0; EXECS=0; COV=0; FT=0; UNITS=0
for j in $(seq 1 $JOBS); do
  e=$(grep -o "^exit=[0-9]*" "$LOG.$j" | cut -d= -f2); [ "${e:-1}" != "0" ] && RC=1
  x=$(grep -o "stat::number_of_executed_units: [0-9]*" "$LOG.$j" | grep -o "[0-9]*$"); EXECS=$((EXECS + ${x:-0}))
  c=$(grep -o "cov: [0-9]*" "$LOG.$j" | tail -1 | grep -o "[0-9]*"); [ "${c:-0}" -gt "$COV" ] && COV=$c
  f=$(grep -o "ft: [0-9]*" "$LOG.$j" | tail -1 | grep -o "[0-9]*"); [ "${f:-0}" -gt "$FT" ] && FT=$f
  u=$(ls "$CORPUS/w$j" 2>/dev/null | wc -l); UNITS=$((UNITS + u))
done
python3 - "$ROOT/evidence/$ID.json" "$T" "$EXECS" "$COV" "$FT" "$UNITS" "$SEED" <<'PY'
import json, sys
p, t, execs, cov, ft, units, seed = sys.argv[1:8]
try:
    e = json.load(open(p))
    e["coverage"]["fuzz"] = {"engine": "libFuzzer + AddressSanitizer (cargo-fuzz), 8 workers", "target": t, "executions": int(execs), "edge_coverage": int(cov),
                             "features": int(ft), "corpus_units_kept": int(units), "seed_base": int(seed),
                             "decoding": "bytes -> case type via a structural serde decoder, normalised into the property's input domain; the property's oracle runs inside the target"}
    e["coverage"]["evaluations"] = e["coverage"].get("evaluations", 0) + int(execs)
    json.dump(e, open(p, "w"), indent=1)
except Exception as ex:
    print("cannot patch evidence:", ex, file=sys.stderr)
PY
OUT=0
if [ $RC -ne 0 ]; then
  # a violation found by the oracle inside the target left a replay file; confirm it on the plain harness
  CONFIRMED=0
  for f in $(find "$ROOT/replays" -name "$ID-*-fuzz-*.json" -newer "$START_MARK" 2>/dev/null | head -5); do
    if ! "$ROOT/harness/target/release/pmh-verif" replay "$f"; then CONFIRMED=1; break; fi
  done
  if [ $CONFIRMED -eq 1 ]; then OUT=1
  else
    A=$(find "$ART" -type f -newer "$START_MARK" 2>/dev/null | head -1)
    if [ -n "$A" ]; then
      case "$(basename "$A")" in
        crash-*) echo "VIOLATION property=$ID replay=$A"; echo "  found by libFuzzer target $T (sanitizer report or panic outside the oracle): $(grep -h -m1 -E 'ERROR: AddressSanitizer|panicked at|SUMMARY' "$LOG".* | head -1 | cut -c1-300)"; OUT=1 ;;
        timeout-*) if [ "$ID" = "C09" ]; then echo "VIOLATION property=$ID replay=$A"; echo "  libFuzzer target $T: an input did not finish within 120 s (non-termination)"; OUT=1; else echo "INFRA: fuzz target $T timed out on $A" >&2; OUT=2; fi ;;
        *) echo "INFRA: fuzz target $T stopped on $A" >&2; OUT=2 ;;
      esac
    else
      echo "INFRA: fuzz target $T exited abnormally without artifact: $(tail -n 3 "$LOG.1" | tr '\n' ' ' | cut -c1-300)" >&2; OUT=2
    fi
  fi
fi
rm -rf "$CORPUS" "$LOG" "$LOG".* "$START_MARK"
exit $OUT
