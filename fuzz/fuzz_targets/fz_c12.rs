#![no_main]
//! libFuzzer target for property C12: the input bytes are the entropy of the property's proptest strategy,
//! the property's oracle runs inside the target (a violation writes a replay file and panics)
use libfuzzer_sys::fuzz_target;

fuzz_target!(|data: &[u8]| {
    pmh_verif::util::install_panic_hook_once();
    pmh_verif::fuzzdec::fuzz("C12", data);
});
