//! child process of C12 (`processes` sub-check): same protocol as `pmh-verif child c12 <in> <out>`, same source files for the
//! computation specs (included by path), but linked against the crate built without `verif-hooks`
#![allow(dead_code, unused_imports, unused_macros)]
#[macro_use]
#[path = "../../harness/src/util.rs"]
mod util;
#[path = "../../harness/src/pmh.rs"]
mod pmh;
#[path = "../../harness/src/sk.rs"]
mod sk;
#[path = "../../harness/src/gen.rs"]
mod gen;
#[path = "../../harness/src/spec.rs"]
mod spec;

use serde_json::{json, Value};

fn main() {
    let args: Vec<String> = std::env::args().collect();
    if args.len() != 5 || args[1] != "child" || args[2] != "c12" {
        eprintln!("usage: pmh-nohooks child c12 <input.json> <output.json>");
        std::process::exit(2);
    }
    let inp: Value = match std::fs::read_to_string(&args[3]).ok().and_then(|s| serde_json::from_str(&s).ok()) {
        Some(v) => v,
        None => std::process::exit(2),
    };
    let specs: Vec<spec::Spec> = serde_json::from_value(inp["specs"].clone()).unwrap_or_default();
    let outs: Vec<Vec<u64>> = specs.iter().map(|s| s.compute()).collect();
    // instances that were used before and reset (reinit / reset / self-clearing hash_set)
    let recycled: Vec<Vec<u64>> = specs.iter().map(|s| s.compute_with_history(true)).collect();
    if std::fs::write(&args[4], serde_json::to_string(&json!({ "outs": outs, "recycled": recycled })).unwrap()).is_err() {
        std::process::exit(2);
    }
}
