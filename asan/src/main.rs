//! small probe binary for property C18, built with AddressSanitizer (and run under Miri in the thorough tier):
//!   pmh-sigprobe child c18 <in.json> <out.json>
#[path = "../../harness/src/sigprobe.rs"]
mod sigprobe;

fn main() {
    let args: Vec<String> = std::env::args().collect();
    if args.len() < 5 || args[1] != "child" || args[2] != "c18" {
        eprintln!("usage: pmh-sigprobe child c18 <in.json> <out.json>");
        std::process::exit(2);
    }
    let inp: serde_json::Value = match std::fs::read_to_string(&args[3]).ok().and_then(|s| serde_json::from_str(&s).ok()) {
        Some(v) => v,
        None => std::process::exit(2),
    };
    let vals: Vec<sigprobe::SigVal> = serde_json::from_value(inp["values"].clone()).unwrap_or_default();
    let with_sha = inp["with_sha"].as_bool().unwrap_or(true);
    let outs: Vec<sigprobe::ProbeOut> = vals.iter().map(|v| sigprobe::probe(v, with_sha)).collect();
    let out = serde_json::json!({ "outs": outs });
    if std::fs::write(&args[4], serde_json::to_string(&out).unwrap()).is_err() {
        std::process::exit(2);
    }
}
